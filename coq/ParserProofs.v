(** The recursive-descent parser terminates with the fuel it is given, only ever looks at a
    suffix of its input, and reports errors at a token of the input or at its end. *)
From MowCli Require Import Base Lexer Parser.

Section PP.
  Variable lookup_opt : str -> option nat.
  Variable lookup_arg : str -> option nat.
  Notation p_seq := (p_seq lookup_opt lookup_arg).
  Notation p_choice := (p_choice lookup_opt lookup_arg).
  Notation p_atom := (p_atom lookup_opt lookup_arg).

  Definition suffix (rest toks : list token) : Prop := exists pre, toks = pre ++ rest.

  Lemma suffix_refl t : suffix t t.
  Proof. now exists []. Qed.
  Lemma suffix_cons x rest toks : suffix rest toks -> suffix rest (x :: toks).
  Proof. intros [pre ->]. now exists (x :: pre). Qed.
  Lemma suffix_tl x rest toks : suffix (x :: rest) toks -> suffix rest toks.
  Proof. intros [pre ->]. exists (pre ++ [x]). now rewrite <- app_assoc. Qed.
  Lemma suffix_trans a b c : suffix a b -> suffix b c -> suffix a c.
  Proof. intros [p ->] [q ->]. exists (q ++ p). now rewrite app_assoc. Qed.
  Lemma suffix_length rest toks : suffix rest toks -> length rest <= length toks.
  Proof. intros [pre ->]. rewrite app_length. lia. Qed.

  (** a result that is not out-of-fuel, whose remainder is a suffix of the input; [strict]: a
      success consumed at least one token *)
  Definition fine {A} (strict : bool) (r : pres A) (toks : list token) : Prop :=
    match r with
    | POk _ rest _ => suffix rest toks /\ (strict = true -> length rest < length toks)
    | PErr _ rest => suffix rest toks
    | PFuel => False
    end.

  Lemma with_rep_fine a toks ro toks0 :
    suffix toks toks0 -> length toks < length toks0 ->
    fine true (with_rep a toks ro) toks0.
  Proof.
    intros Hs Hl. unfold with_rep. destruct toks as [|t toks']; [cbn; auto|].
    destruct (ttype_eqb (tk_typ t) TRep); cbn.
    - split; [now apply suffix_tl in Hs|]. intros _. cbn in Hl. lia.
    - auto.
  Qed.

  Lemma skip_optvalue_suffix toks : suffix (skip_optvalue toks) toks /\ length (skip_optvalue toks) <= length toks.
  Proof.
    unfold skip_optvalue. destruct toks as [|t toks]; [split; [apply suffix_refl | lia]|].
    destruct (ttype_eqb (tk_typ t) TOptValue); cbn.
    - split; [apply suffix_cons, suffix_refl | lia].
    - split; [apply suffix_refl | lia].
  Qed.

  Lemma p_choice_unfold f toks ro :
    p_choice (S f) toks ro =
    match p_atom f toks ro with
    | POk a toks1 ro1 =>
      match toks1 with
      | t :: toks2 =>
        if ttype_eqb (tk_typ t) TChoice then
          match p_choice f toks2 ro1 with
          | POk c toks3 ro3 => POk (CAlt a c) toks3 ro3
          | PErr m r => PErr m r
          | PFuel => PFuel
          end
        else POk (COne a) toks1 ro1
      | [] => POk (COne a) toks1 ro1
      end
    | PErr m r => PErr m r
    | PFuel => PFuel
    end.
  Proof. reflexivity. Qed.

  Lemma p_seq_unfold f req toks ro :
    p_seq (S f) req toks ro =
    if req || can_atom toks then
      match p_choice f toks ro with
      | POk c toks1 ro1 =>
        match p_seq f false toks1 ro1 with
        | POk s toks2 ro2 => POk (SCons c s) toks2 ro2
        | PErr m r => PErr m r
        | PFuel => PFuel
        end
      | PErr m r => PErr m r
      | PFuel => PFuel
      end
    else POk SNil toks ro.
  Proof. reflexivity. Qed.

  Theorem parser_fine : forall n,
    (forall toks fuel ro, length toks <= n -> 3 * n + 1 <= fuel -> fine true (p_atom fuel toks ro) toks) /\
    (forall toks fuel ro, length toks <= n -> 3 * n + 2 <= fuel -> fine true (p_choice fuel toks ro) toks) /\
    (forall toks fuel req ro, length toks <= n -> 3 * n + 3 <= fuel -> fine false (p_seq fuel req toks ro) toks).
  Proof.
    induction n as [n IHn] using lt_wf_ind.
    assert (IHseq : forall toks fuel req ro, length toks < n -> 3 * n <= fuel -> fine false (p_seq fuel req toks ro) toks).
    { intros toks fuel req ro Hl Hf. destruct n as [|m]; [lia|].
      destruct (IHn m (Nat.lt_succ_diag_r m)) as (_ & _ & H). apply H; lia. }
    assert (IHchoice : forall toks fuel ro, length toks < n -> 3 * n - 1 <= fuel -> fine true (p_choice fuel toks ro) toks).
    { intros toks fuel ro Hl Hf. destruct n as [|m]; [lia|].
      destruct (IHn m (Nat.lt_succ_diag_r m)) as (_ & H & _). apply H; lia. }
    (* atom *)
    assert (Hatom : forall toks fuel ro, length toks <= n -> 3 * n + 1 <= fuel -> fine true (p_atom fuel toks ro) toks).
    { intros toks fuel ro Hl Hf. destruct fuel as [|f]; [lia|]. cbn [Parser.p_atom].
      destruct toks as [|t toks1]; [cbn; apply suffix_refl|]. cbn [length] in Hl.
      assert (Hs1 : suffix toks1 (t :: toks1)) by (apply suffix_cons, suffix_refl).
      assert (Hl1 : length toks1 < length (t :: toks1)) by (cbn; lia).
      assert (Hgroup : forall (mk : seq -> atom) (closing : ttype) (msg : str),
                 fine true
                   match p_seq f true toks1 ro with
                   | POk s toks2 ro2 =>
                     match toks2 with
                     | t2 :: toks3 => if ttype_eqb (tk_typ t2) closing then with_rep (mk s) toks3 ro2
                                      else PErr msg toks2
                     | [] => PErr msg toks2
                     end
                   | PErr m r => PErr m r
                   | PFuel => PFuel
                   end (t :: toks1)).
      { intros mk closing msg.
        assert (Hfs : fine false (p_seq f true toks1 ro) toks1) by (apply IHseq; lia).
        destruct (p_seq f true toks1 ro) as [s toks2 ro2|m r|]; cbn in Hfs; [| |contradiction].
        - destruct Hfs as [Hs2 _].
          assert (Hs2' : suffix toks2 (t :: toks1)) by (eapply suffix_trans; eauto).
          destruct toks2 as [|t2 toks3]; [exact Hs2'|].
          destruct (ttype_eqb (tk_typ t2) closing); [|exact Hs2'].
          apply with_rep_fine; [now apply suffix_tl in Hs2'|].
          apply suffix_length in Hs2. cbn in *. lia.
        - cbn. eapply suffix_trans; eauto. }
      destruct (tk_typ t); try (cbn; apply suffix_refl).
      - destruct (lookup_arg (tk_val t)); [now apply with_rep_fine | cbn; apply suffix_refl].
      - apply (Hgroup APar TClosePar msg_expect_par).
      - apply (Hgroup ASq TCloseSq msg_expect_sq).
      - destruct ro; [cbn; apply suffix_refl | now apply with_rep_fine].
      - destruct ro; [cbn; apply suffix_refl|].
        destruct (lookup_opt (tk_val t)); [|cbn; apply suffix_refl].
        destruct (skip_optvalue_suffix toks1) as [Hsk Hlk].
        apply with_rep_fine; [eapply suffix_trans; eauto | cbn; lia].
      - destruct ro; [cbn; apply suffix_refl|].
        destruct (lookup_opt (tk_val t)); [|cbn; apply suffix_refl].
        destruct (skip_optvalue_suffix toks1) as [Hsk Hlk].
        apply with_rep_fine; [eapply suffix_trans; eauto | cbn; lia].
      - destruct ro; [cbn; apply suffix_refl|].
        destruct (resolve_seq lookup_opt (tk_val t)) as [[x is]|c]; [now apply with_rep_fine | cbn; apply suffix_refl].
      - cbn. split; [assumption | intros _; lia]. }
    (* choice *)
    assert (Hchoice : forall toks fuel ro, length toks <= n -> 3 * n + 2 <= fuel -> fine true (p_choice fuel toks ro) toks).
    { intros toks fuel ro Hl Hf. destruct fuel as [|f]; [lia|]. rewrite p_choice_unfold.
      assert (Ha : fine true (p_atom f toks ro) toks) by (apply Hatom; lia).
      destruct (p_atom f toks ro) as [a toks1 ro1|m r|]; cbn in Ha; [|exact Ha|contradiction].
      destruct Ha as [Hs1 Hl1]. specialize (Hl1 eq_refl).
      destruct toks1 as [|t toks2]; [cbn; auto|].
      destruct (ttype_eqb (tk_typ t) TChoice); [|cbn; auto].
      assert (Hc : fine true (p_choice f toks2 ro1) toks2) by (apply IHchoice; cbn in Hl1; lia).
      assert (Hs2 : suffix toks2 toks) by (now apply suffix_tl in Hs1).
      destruct (p_choice f toks2 ro1) as [c toks3 ro3|m r|]; cbn in Hc; [| |contradiction].
      - destruct Hc as [Hs3 Hl3]. cbn. split; [eapply suffix_trans; eauto|].
        intros _. specialize (Hl3 eq_refl). cbn in Hl1. lia.
      - cbn. eapply suffix_trans; eauto. }
    split; [exact Hatom|]. split; [exact Hchoice|].
    (* seq *)
    intros toks fuel req ro Hl Hf. destruct fuel as [|f]; [lia|]. rewrite p_seq_unfold.
    destruct (req || can_atom toks); [|cbn; split; [apply suffix_refl | discriminate]].
    assert (Hc : fine true (p_choice f toks ro) toks) by (apply Hchoice; lia).
    destruct (p_choice f toks ro) as [c toks1 ro1|m r|]; cbn in Hc; [|exact Hc|contradiction].
    destruct Hc as [Hs1 Hl1]. specialize (Hl1 eq_refl).
    assert (Hq : fine false (p_seq f false toks1 ro1) toks1) by (apply IHseq; lia).
    destruct (p_seq f false toks1 ro1) as [s toks2 ro2|m r|]; cbn in Hq; [| |contradiction].
    - destruct Hq as [Hs2 _]. cbn. split; [eapply suffix_trans; eauto | discriminate].
    - cbn. eapply suffix_trans; eauto.
  Qed.

  (** * Consequences *)
  Theorem parse_tokens_total speclen toks :
    parse_tokens lookup_opt lookup_arg speclen toks <> ParseFuel.
  Proof.
    unfold parse_tokens, parse_fuel.
    destruct (parser_fine (length toks)) as (_ & _ & H).
    specialize (H toks (3 * length toks + 4) false false (le_n _)).
    assert (Hf : 3 * length toks + 3 <= 3 * length toks + 4) by lia. specialize (H Hf).
    destruct (Parser.p_seq _ _ _ _ _ _) as [s [|t r] ro|m r|]; cbn in H; try discriminate. contradiction.
  Qed.

  (** an error is reported at a token of the input, or at the end of the spec *)
  Theorem parse_tokens_error_at_token speclen toks m p :
    parse_tokens lookup_opt lookup_arg speclen toks = ParseErr m p ->
    p = speclen \/ exists t, In t toks /\ p = tk_pos t.
  Proof.
    unfold parse_tokens, parse_fuel.
    destruct (parser_fine (length toks)) as (_ & _ & H).
    specialize (H toks (3 * length toks + 4) false false (le_n _)).
    assert (Hf : 3 * length toks + 3 <= 3 * length toks + 4) by lia. specialize (H Hf).
    destruct (Parser.p_seq _ _ _ _ _ _) as [s [|t r] ro|m0 r|]; cbn in H; try discriminate.
    - intros [= <- <-]. right. destruct H as [[pre ->] _]. exists t. split; [|reflexivity].
      apply in_or_app. right. now left.
    - intros [= <- <-]. destruct r as [|t r]; cbn; [now left|]. right.
      destruct H as [pre ->]. exists t. split; [|reflexivity]. apply in_or_app. right. now left.
  Qed.
End PP.
