(** Matcher-level facts about spellings (C10) and adjacent occurrences (C11): every documented
    spelling of an occurrence is found by its own option's scan with the same value and the same
    remainder, and is stepped over as a whole by the scan of any other option. *)
From MowCli Require Import Base Matchers.
Local Arguments Ascii.eqb : simpl never.

Section Spell.
  Variable D : optinfo.
  Variable o : nat.                    (* the option *)
  Variable c : ascii.                  (* its short name is -c *)
  Variable long : str.                 (* its long name, with the two dashes *)
  Hypothesis Hc : Ascii.eqb c c_dash = false.
  Hypothesis Hls : oi_lookup D [c_dash; c] = Some o.
  Hypothesis Hll : oi_lookup D long = Some o.
  Hypothesis Hlong : exists l1 l2, long = c_dash :: c_dash :: l1 :: l2.
  Hypothesis Hnoeq : split_eq long = (long, None).

  Lemma split_eq_app name v : split_eq name = (name, None) -> split_eq (name ++ c_eq :: v) = (name, Some v).
  Proof.
    revert v. induction name as [|x name IH]; intros v H; cbn in *.
    - now rewrite Ascii.eqb_refl.
    - destruct (Ascii.eqb x c_eq); [discriminate|]. destruct (split_eq name) as [a b] eqn:Hs.
      injection H as -> ->. now rewrite (IH v eq_refl).
  Qed.

  Lemma long_shape v : str_eqb (long ++ v) s_dash = false /\ str_eqb (long ++ v) s_dd = false /\
                       dashed (long ++ v) = true /\ prefix_b s_dd (long ++ v) = true.
  Proof.
    destruct Hlong as (l1 & l2 & ->). cbn. rewrite ?Ascii.eqb_refl. cbn. auto.
  Qed.

  Lemma short_shape v : str_eqb (c_dash :: c :: v) s_dash = false /\ str_eqb (c_dash :: c :: v) s_dd = false /\
                        dashed (c_dash :: c :: v) = true /\ prefix_b s_dd (c_dash :: c :: v) = false.
  Proof.
    assert (Hc' : Ascii.eqb c_dash c = false) by (now rewrite Ascii.eqb_sym).
    cbn. rewrite ?Ascii.eqb_refl, ?Hc, ?Hc'. cbn. auto.
  Qed.

  Definition good_sep (v : str) : Prop := v <> [] /\ dashed v = false.

  (** * the option's own scan *)
  Section Valued.
    Hypothesis Hv : oi_isbool D o = false.

    Lemma own_short_sep pre v rest : good_sep v ->
      scan D o pre ([c_dash; c] :: v :: rest) = Some (v, rev_append pre rest).
    Proof.
      intros [Hne Hd]. cbn [scan]. destruct (short_shape []) as (-> & -> & -> & ->).
      unfold match_short. cbn [short_loop]. rewrite Hls, Hv, Nat.eqb_refl. cbn [negb]. now rewrite Hd.
    Qed.

    Lemma own_short_eq pre v rest : v <> [] ->
      scan D o pre ((c_dash :: c :: c_eq :: v) :: rest) = Some (v, rev_append pre rest).
    Proof.
      intros Hne. cbn [scan]. destruct (short_shape (c_eq :: v)) as (-> & -> & -> & ->).
      unfold match_short. rewrite ?Ascii.eqb_refl, Hls, Nat.eqb_refl. cbn [negb]. destruct v; [congruence | reflexivity].
    Qed.

    Lemma own_short_att pre e v rest : Ascii.eqb e c_eq = false ->
      scan D o pre ((c_dash :: c :: e :: v) :: rest) = Some (e :: v, rev_append pre rest).
    Proof.
      intros He. cbn [scan]. destruct (short_shape (e :: v)) as (-> & -> & -> & ->).
      unfold match_short. rewrite He. cbn [short_loop]. rewrite Hls, Hv, Nat.eqb_refl. reflexivity.
    Qed.

    Lemma own_long_sep pre v rest : good_sep v ->
      scan D o pre (long :: v :: rest) = Some (v, rev_append pre rest).
    Proof.
      intros [Hne Hd]. cbn [scan]. destruct (long_shape []) as (H1 & H2 & H3 & H4). rewrite app_nil_r in *.
      rewrite H1, H2, H3, H4. unfold match_long. rewrite Hnoeq, Hll, Hv, Nat.eqb_refl. cbn [negb]. now rewrite Hd.
    Qed.

    Lemma own_long_eq pre v rest : v <> [] ->
      scan D o pre ((long ++ c_eq :: v) :: rest) = Some (v, rev_append pre rest).
    Proof.
      intros Hne. cbn [scan]. destruct (long_shape (c_eq :: v)) as (-> & -> & -> & ->).
      unfold match_long. rewrite (split_eq_app _ _ Hnoeq), Hll, Nat.eqb_refl. cbn [negb]. destruct v; [congruence | reflexivity].
    Qed.

    (** For a valued option, `-o v`, `-o=v`, `-ov`, `--out v` and `--out=v` are interchangeable
        for its own matcher: same value recorded, same remaining arguments. *)
    Theorem own_valued_spellings pre v rest :
      good_sep v -> (match v with e :: _ => Ascii.eqb e c_eq = false | [] => True end) ->
      let r := Some (v, rev_append pre rest) in
      scan D o pre ([c_dash; c] :: v :: rest) = r /\
      scan D o pre ((c_dash :: c :: c_eq :: v) :: rest) = r /\
      scan D o pre ((c_dash :: c :: v) :: rest) = r /\
      scan D o pre (long :: v :: rest) = r /\
      scan D o pre ((long ++ c_eq :: v) :: rest) = r.
    Proof.
      intros Hg He. pose proof Hg as [Hne Hd]. repeat split.
      - now apply own_short_sep.
      - now apply own_short_eq.
      - destruct v as [|e v']; [congruence|]. now apply own_short_att.
      - now apply own_long_sep.
      - now apply own_long_eq.
    Qed.
  End Valued.

  Section Flag.
    Hypothesis Hf : oi_isbool D o = true.

    (** For a flag, `-f`, `--force`, `-f=true` and `--force=true` are interchangeable for its own
        matcher. *)
    Theorem own_flag_spellings pre rest :
      let r := Some (s_true, rev_append pre rest) in
      scan D o pre ([c_dash; c] :: rest) = r /\
      scan D o pre ((c_dash :: c :: c_eq :: s_true) :: rest) = r /\
      scan D o pre (long :: rest) = r /\
      scan D o pre ((long ++ c_eq :: s_true) :: rest) = r.
    Proof.
      repeat split.
      - cbn [scan]. destruct (short_shape []) as (-> & -> & -> & ->).
        unfold match_short. cbn [short_loop]. rewrite Hls, Hf, Nat.eqb_refl. reflexivity.
      - cbn [scan]. destruct (short_shape (c_eq :: s_true)) as (-> & -> & -> & ->).
        unfold match_short. rewrite ?Ascii.eqb_refl, Hls, Nat.eqb_refl. reflexivity.
      - cbn [scan]. destruct (long_shape []) as (H1 & H2 & H3 & H4). rewrite app_nil_r in *.
        rewrite H1, H2, H3, H4. unfold match_long. rewrite Hnoeq, Hll, Hf, Nat.eqb_refl. reflexivity.
      - cbn [scan]. destruct (long_shape (c_eq :: s_true)) as (-> & -> & -> & ->).
        unfold match_long. rewrite (split_eq_app _ _ Hnoeq), Hll, Nat.eqb_refl. reflexivity.
    Qed.
  End Flag.

  (** * the scan of any other option steps over every spelling as a whole *)
  Section Other.
    Variable o' : nat.
    Hypothesis Hne : Nat.eqb o o' = false.

    Section OtherValued.
      Hypothesis Hv : oi_isbool D o = false.

      Theorem other_steps_over_valued pre v rest :
        good_sep v -> (match v with e :: _ => Ascii.eqb e c_eq = false | [] => True end) ->
        scan D o' pre ([c_dash; c] :: v :: rest) = scan D o' (v :: [c_dash; c] :: pre) rest /\
        scan D o' pre ((c_dash :: c :: c_eq :: v) :: rest) = scan D o' ((c_dash :: c :: c_eq :: v) :: pre) rest /\
        scan D o' pre ((c_dash :: c :: v) :: rest) = scan D o' ((c_dash :: c :: v) :: pre) rest /\
        scan D o' pre (long :: v :: rest) = scan D o' (v :: long :: pre) rest /\
        scan D o' pre ((long ++ c_eq :: v) :: rest) = scan D o' ((long ++ c_eq :: v) :: pre) rest.
      Proof.
        intros [Hnv Hd] He. repeat split.
        - cbn [scan]. destruct (short_shape []) as (-> & -> & -> & ->).
          unfold match_short. cbn [short_loop]. rewrite Hls, Hv, Hne. reflexivity.
        - cbn [scan]. destruct (short_shape (c_eq :: v)) as (-> & -> & -> & ->).
          unfold match_short. rewrite ?Ascii.eqb_refl, Hls, Hne. reflexivity.
        - destruct v as [|e v']; [congruence|]. cbn [scan]. destruct (short_shape (e :: v')) as (-> & -> & -> & ->).
          unfold match_short. rewrite He. cbn [short_loop]. rewrite Hls, Hv, Hne. reflexivity.
        - cbn [scan]. destruct (long_shape []) as (H1 & H2 & H3 & H4). rewrite app_nil_r in *.
          rewrite H1, H2, H3, H4. unfold match_long. rewrite Hnoeq, Hll, Hv, Hne. reflexivity.
        - cbn [scan]. destruct (long_shape (c_eq :: v)) as (-> & -> & -> & ->).
          unfold match_long. rewrite (split_eq_app _ _ Hnoeq), Hll, Hne. reflexivity.
      Qed.
    End OtherValued.

    Section OtherFlag.
      Hypothesis Hf : oi_isbool D o = true.

      Theorem other_steps_over_flag pre rest :
        scan D o' pre ([c_dash; c] :: rest) = scan D o' ([c_dash; c] :: pre) rest /\
        scan D o' pre ((c_dash :: c :: c_eq :: s_true) :: rest) = scan D o' ((c_dash :: c :: c_eq :: s_true) :: pre) rest /\
        scan D o' pre (long :: rest) = scan D o' (long :: pre) rest /\
        scan D o' pre ((long ++ c_eq :: s_true) :: rest) = scan D o' ((long ++ c_eq :: s_true) :: pre) rest.
      Proof.
        repeat split.
        - cbn [scan]. destruct (short_shape []) as (-> & -> & -> & ->).
          unfold match_short. cbn [short_loop]. rewrite Hls, Hf, Hne. reflexivity.
        - cbn [scan]. destruct (short_shape (c_eq :: s_true)) as (-> & -> & -> & ->).
          unfold match_short. rewrite ?Ascii.eqb_refl, Hls, Hne. reflexivity.
        - cbn [scan]. destruct (long_shape []) as (H1 & H2 & H3 & H4). rewrite app_nil_r in *.
          rewrite H1, H2, H3, H4. unfold match_long. rewrite Hnoeq, Hll, Hf, Hne. reflexivity.
        - cbn [scan]. destruct (long_shape (c_eq :: s_true)) as (-> & -> & -> & ->).
          unfold match_long. rewrite (split_eq_app _ _ Hnoeq), Hll, Hne. reflexivity.
      Qed.
    End OtherFlag.
  End Other.
End Spell.

(** * Spellings in general *)

Record named (D : optinfo) (o : nat) (c : ascii) (long : str) : Prop := mkNamed {
  n_c : Ascii.eqb c c_dash = false;
  n_ls : oi_lookup D [c_dash; c] = Some o;
  n_ll : oi_lookup D long = Some o;
  n_long : exists l1 l2, long = c_dash :: c_dash :: l1 :: l2;
  n_noeq : split_eq long = (long, None)
}.

(** [Spelled D o c long v toks]: [toks] is one of the documented spellings of an occurrence of the
    option (o, -c, long) with value [v] ("true" for a flag) *)
Inductive Spelled (D : optinfo) (o : nat) (c : ascii) (long : str) : str -> list str -> Prop :=
| SpFlagShort : oi_isbool D o = true -> Spelled D o c long s_true [[c_dash; c]]
| SpFlagShortEq : oi_isbool D o = true -> Spelled D o c long s_true [c_dash :: c :: c_eq :: s_true]
| SpFlagLong : oi_isbool D o = true -> Spelled D o c long s_true [long]
| SpFlagLongEq : oi_isbool D o = true -> Spelled D o c long s_true [long ++ c_eq :: s_true]
| SpShortSep v : oi_isbool D o = false -> good_sep v -> Spelled D o c long v [[c_dash; c]; v]
| SpShortEq v : oi_isbool D o = false -> v <> [] -> Spelled D o c long v [c_dash :: c :: c_eq :: v]
| SpShortAtt e v : oi_isbool D o = false -> Ascii.eqb e c_eq = false -> Spelled D o c long (e :: v) [c_dash :: c :: e :: v]
| SpLongSep v : oi_isbool D o = false -> good_sep v -> Spelled D o c long v [long; v]
| SpLongEq v : oi_isbool D o = false -> v <> [] -> Spelled D o c long v [long ++ c_eq :: v].

(** its own scan finds it, whatever the spelling, with the same value and the same remainder *)
Theorem own_spelled D o c long v toks pre rest :
  named D o c long -> Spelled D o c long v toks ->
  scan D o pre (toks ++ rest) = Some (v, rev_append pre rest).
Proof.
  intros [Hc Hls Hll Hlong Hnoeq] Hs.
  inversion Hs as [Hf|Hf|Hf|Hf|v0 Hv Hg|v0 Hv Hne|e v0 Hv He|v0 Hv Hg|v0 Hv Hne]; subst; cbn [List.app].
  - apply (own_flag_spellings D o c long Hc Hls Hll Hlong Hnoeq Hf pre rest).
  - apply (own_flag_spellings D o c long Hc Hls Hll Hlong Hnoeq Hf pre rest).
  - apply (own_flag_spellings D o c long Hc Hls Hll Hlong Hnoeq Hf pre rest).
  - apply (own_flag_spellings D o c long Hc Hls Hll Hlong Hnoeq Hf pre rest).
  - now apply own_short_sep.
  - now apply own_short_eq.
  - now apply own_short_att.
  - now apply (own_long_sep D o long Hll Hlong Hnoeq Hv).
  - now apply (own_long_eq D o long Hll Hlong Hnoeq).
Qed.

(** the scan of any other option steps over it as a whole, whatever the spelling *)
Theorem other_spelled D o c long v toks o' pre rest :
  named D o c long -> Spelled D o c long v toks -> Nat.eqb o o' = false ->
  scan D o' pre (toks ++ rest) = scan D o' (rev toks ++ pre) rest.
Proof.
  intros [Hc Hls Hll Hlong Hnoeq] Hs Hne.
  inversion Hs as [Hf|Hf|Hf|Hf|v0 Hv Hg|v0 Hv Hn0|e v0 Hv He|v0 Hv Hg|v0 Hv Hn0]; subst; cbn [List.app rev].
  - apply (other_steps_over_flag D o c long Hc Hls Hll Hlong Hnoeq o' Hne Hf pre rest).
  - apply (other_steps_over_flag D o c long Hc Hls Hll Hlong Hnoeq o' Hne Hf pre rest).
  - apply (other_steps_over_flag D o c long Hc Hls Hll Hlong Hnoeq o' Hne Hf pre rest).
  - apply (other_steps_over_flag D o c long Hc Hls Hll Hlong Hnoeq o' Hne Hf pre rest).
  - cbn [scan]. destruct (short_shape c Hc []) as (-> & -> & -> & ->).
    unfold match_short. cbn [short_loop]. now rewrite Hls, Hv, Hne.
  - cbn [scan]. destruct (short_shape c Hc (c_eq :: v)) as (-> & -> & -> & ->).
    unfold match_short. now rewrite Ascii.eqb_refl, Hls, Hne.
  - cbn [scan]. destruct (short_shape c Hc (e :: v0)) as (-> & -> & -> & ->).
    unfold match_short. rewrite He. cbn [short_loop]. now rewrite Hls, Hv, Hne.
  - cbn [scan]. destruct (long_shape D o long Hll Hlong Hnoeq []) as (H1 & H2 & H3 & H4). rewrite app_nil_r in *.
    rewrite H1, H2, H3, H4. unfold match_long. now rewrite Hnoeq, Hll, Hv, Hne.
  - cbn [scan]. destruct (long_shape D o long Hll Hlong Hnoeq (c_eq :: v)) as (-> & -> & -> & ->).
    unfold match_long. now rewrite (split_eq_app _ _ Hnoeq), Hll, Hne.
Qed.

(** [pre] is only carried along *)
Lemma scan_pre D o rest : forall pre,
  scan D o pre rest = match scan D o [] rest with
                      | Some (v, rem) => Some (v, rev_append pre rem)
                      | None => None
                      end.
Proof.
  assert (Hn : forall n rest, length rest <= n -> forall pre,
               scan D o pre rest = match scan D o [] rest with
                                   | Some (v, rem) => Some (v, rev_append pre rem)
                                   | None => None
                                   end).
  { induction n as [|n IHn]; intros rest0 Hlen pre.
    - destruct rest0; [reflexivity | cbn in Hlen; lia].
    - destruct rest0 as [|arg after]; [reflexivity|]. cbn [scan]. cbn [length] in Hlen.
      destruct (str_eqb arg s_dash); [reflexivity|]. destruct (str_eqb arg s_dd); [reflexivity|].
      destruct (dashed arg); [|reflexivity].
      destruct (if prefix_b s_dd arg then match_long D o arg after else match_short D o arg after) as [v tl|[|[|k]]].
      + reflexivity.
      + reflexivity.
      + rewrite (IHn after) by lia. rewrite (IHn after) with (pre := [arg]) by lia.
        destruct (scan D o [] after) as [[v rem]|]; reflexivity.
      + destruct after as [|a2 after2]; [reflexivity|].
        rewrite (IHn after2) by (cbn in Hlen; lia). rewrite (IHn after2) with (pre := [a2; arg]) by (cbn in Hlen; lia).
        destruct (scan D o [] after2) as [[v rem]|]; reflexivity. }
  intros pre. now apply (Hn (length rest)).
Qed.

(** C10 at the matcher level, for an occurrence at any position [pre ++ _ ++ rest] of the scan:
    the option's own matcher cannot tell two spellings apart *)
Theorem respell_own D o c long v t1 t2 pre rest :
  named D o c long -> Spelled D o c long v t1 -> Spelled D o c long v t2 ->
  scan D o pre (t1 ++ rest) = scan D o pre (t2 ++ rest).
Proof. intros Hn H1 H2. now rewrite (own_spelled _ _ _ _ _ _ _ _ Hn H1), (own_spelled _ _ _ _ _ _ _ _ Hn H2). Qed.

(** and any other option's matcher finds the same thing behind it, leaving the occurrence where it
    was, in the spelling it had *)
Theorem respell_other D o c long v t1 t2 o' rest :
  named D o c long -> Spelled D o c long v t1 -> Spelled D o c long v t2 -> Nat.eqb o o' = false ->
  match scan D o' [] (t1 ++ rest), scan D o' [] (t2 ++ rest) with
  | Some (v1, r1), Some (v2, r2) => v1 = v2 /\ exists r, r1 = t1 ++ r /\ r2 = t2 ++ r
  | None, None => True
  | _, _ => False
  end.
Proof.
  intros Hn H1 H2 Hne.
  rewrite (other_spelled _ _ _ _ _ _ _ [] rest Hn H1 Hne), (other_spelled _ _ _ _ _ _ _ [] rest Hn H2 Hne).
  rewrite !app_nil_r. rewrite (scan_pre D o' rest (rev t1)), (scan_pre D o' rest (rev t2)).
  destruct (scan D o' [] rest) as [[v0 r]|]; [|exact I].
  split; [reflexivity|]. exists r. rewrite !rev_append_rev, !rev_involutive. auto.
Qed.

(** C11 at the matcher level: two adjacent occurrences of different options, in either order, look
    the same to the matcher of either option: same value, and a remainder in which the other
    occurrence is left untouched *)
Theorem swap_own D o c long v t o' c' long' v' t' pre rest :
  named D o c long -> Spelled D o c long v t ->
  named D o' c' long' -> Spelled D o' c' long' v' t' -> Nat.eqb o' o = false ->
  scan D o pre (t ++ t' ++ rest) = Some (v, rev_append pre (t' ++ rest)) /\
  scan D o pre (t' ++ t ++ rest) = Some (v, rev_append pre (t' ++ rest)).
Proof.
  intros Hn Hs Hn' Hs' Hne. split.
  - now apply (own_spelled D o c long).
  - rewrite (other_spelled _ _ _ _ _ _ _ pre (t ++ rest) Hn' Hs' Hne).
    rewrite (own_spelled _ _ _ _ _ _ (rev t' ++ pre) rest Hn Hs).
    f_equal. f_equal. rewrite !rev_append_rev, rev_app_distr, rev_involutive. now rewrite <- app_assoc.
Qed.
