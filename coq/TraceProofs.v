(** Whole-tree facts about what Run lets run: for EVERY command tree and EVERY argument vector (no
    well-formedness of the invocation assumed, unlike [TreeProofs.route]), callbacks run only inside
    the one step chain of the addressed command; every other end of Run — a usage or conversion
    error at any level, a spec or declaration panic of any command initialised on the way, help,
    version — has an empty trace; and inside the chain the Action event occurs at most once and
    belongs to the last command of the path. *)
From MowCli Require Import Base Values Flow Cmd FlowProofs CompileProofs.

(** * events of [flow_spec] *)

Definition count_actions (tr : list event) : nat :=
  length (filter (fun e : event => match fst e with HAction => true | _ => false end) tr).

Lemma count_actions_app a b : count_actions (a ++ b) = count_actions a + count_actions b.
Proof. unfold count_actions. now rewrite filter_app, app_length. Qed.

Lemma befores_no_action ls : forall d, count_actions (fst (fst (befores_spec ls d))) = 0.
Proof.
  induction ls as [|l rest IH]; intros d; cbn [befores_spec]; [reflexivity|].
  destruct (l_before l); try reflexivity.
  - specialize (IH (S d)). destruct (befores_spec rest (S d)) as [[tr n] p]. exact IH.
  - specialize (IH (S d)). destruct (befores_spec rest (S d)) as [[tr n] p]. exact IH.
Qed.

Lemma afters_no_action done : forall p, count_actions (fst (afters_spec done p)) = 0.
Proof.
  induction done as [|[d l] rest IH]; intros p; cbn [afters_spec]; [reflexivity|].
  destruct (l_after l).
  - apply IH.
  - specialize (IH p). destruct (afters_spec rest p) as [tr p']. exact IH.
  - specialize (IH (raise_of (HPanics v))). destruct (afters_spec rest _) as [tr p']. exact IH.
  - specialize (IH (raise_of (HExits n))). destruct (afters_spec rest _) as [tr p']. exact IH.
Qed.

Lemma afters_events done : forall p e, In e (fst (afters_spec done p)) -> fst e = HAfter.
Proof.
  induction done as [|[d l] rest IH]; intros p e; cbn [afters_spec]; [intros []|].
  destruct (l_after l).
  - apply IH.
  - specialize (IH p e). destruct (afters_spec rest p) as [tr p']. intros [<-|H]; [reflexivity | now apply IH].
  - specialize (IH (raise_of (HPanics v)) e). destruct (afters_spec rest _) as [tr p']. intros [<-|H]; [reflexivity | now apply IH].
  - specialize (IH (raise_of (HExits n)) e). destruct (afters_spec rest _) as [tr p']. intros [<-|H]; [reflexivity | now apply IH].
Qed.

(** the Action event occurs at most once, and only for the LAST level *)
Lemma flow_spec_actions ls act :
  count_actions (fst (flow_spec ls act)) <= 1 /\
  forall d, In (HAction, d) (fst (flow_spec ls act)) -> d = length ls - 1.
Proof.
  unfold flow_spec, flow_spec_from.
  pose proof (befores_no_action ls 0) as Hb. pose proof (befores_spec_trace ls 0) as Hbe.
  destruct (befores_spec ls 0) as [[trb n] pb]. cbn [fst] in Hb, Hbe.
  set (done := rev (firstn n (combine (seq 0 (length ls)) ls)) ++ []).
  assert (Ha : forall tra pa, (tra = [] \/ tra = [(HAction, 0 + length ls - 1)]) ->
             count_actions (fst (let '(trf, pf) := afters_spec done pa in (trb ++ tra ++ trf, end_of pf))) <= 1 /\
             forall d, In (HAction, d) (fst (let '(trf, pf) := afters_spec done pa in (trb ++ tra ++ trf, end_of pf))) ->
                       d = length ls - 1).
  { intros tra pa Htra. pose proof (afters_no_action done pa) as Hf. pose proof (afters_events done pa) as Hfe.
    destruct (afters_spec done pa) as [trf pf]. cbn [fst] in *. split.
    - rewrite !count_actions_app, Hb, Hf. destruct Htra as [-> | ->]; cbn; lia.
    - intros d Hin. apply in_app_or in Hin as [Hin|Hin]; [apply Hbe in Hin as [Hk _]; discriminate|].
      apply in_app_or in Hin as [Hin|Hin]; [|apply Hfe in Hin; discriminate].
      destruct Htra as [-> | ->]; [destruct Hin|]. destruct Hin as [[= <-]|[]]. lia. }
  destruct pb as [e|].
  - apply Ha. now left.
  - unfold action_spec. destruct act; apply Ha; (now left) || (now right).
Qed.

Section Trace.
  Variable parse_float : str -> option str.
  Variable getenv : str -> str.

  (** the result of the one step chain of an addressed command: [ls] are the levels of the whole
      path, [ps] their command paths *)
  Definition flowed (r : result) : Prop :=
    exists ls ps act, act <> HAbsent /\ ls <> [] /\ length ps = length ls /\
      r_outcome r = outcome_of_flow (snd (run_flow ls act)) /\
      r_trace r = trace_of ps (fst (run_flow ls act)).

  Theorem parse_cmd_trace c : forall i policy path args levels paths filled err,
    length paths = length levels ->
    let r := parse_cmd parse_float getenv c i policy path args levels paths filled err in
    r_trace r = [] \/ flowed r.
  Proof.
    induction c as [n d ld h sp pol ds b act af subs IHsubs] using cmd_rect'.
    intros i policy path args levels paths filled err Hlen.
    cbn [parse_cmd c_subs c_before c_after c_action].
    assert (Hdesc : forall arg rest lv ps fl, length ps = length lv ->
               match first_some
                       (fun sub =>
                          if is_alias sub arg
                          then Some match do_init parse_float getenv (c_decls sub) (c_spec sub) with
                                    | IOk si => parse_cmd parse_float getenv sub si (effective_policy policy sub)
                                                          (path ++ [c_name false sub]) rest lv ps fl err
                                    | ISpecErr m p => mkResult (RPanicSpec m p) [] err fl
                                    | IDeclPanic m => mkResult (RPanicDecl m) [] err fl
                                    | IFuel => mkResult RFuel [] err fl
                                    end
                          else None) subs with
               | Some r => r_trace r = [] \/ flowed r
               | None => True
               end).
    { intros arg rest lv ps fl Hl.
      induction subs as [|s subs' IHs]; [exact I|]. cbn [first_some].
      inversion IHsubs as [|? ? Hps Hrest]; subst.
      destruct (is_alias s arg).
      - destruct (do_init parse_float getenv (c_decls s) (c_spec s)) as [si| | |]; cbn [r_trace]; try (now left).
        now apply Hps.
      - now apply IHs. }
    destruct (help_index args) as [hi|].
    - destruct (hi <=? opts_and_args subs args).
      + destruct (print_help parse_float getenv path _ i true) as [text r]. now left.
      + destruct (skipn (opts_and_args subs args) args) as [|arg rest]; [now left|].
        specialize (Hdesc arg rest levels paths filled Hlen).
        destruct (first_some _ subs); [assumption | now left].
    - destruct (fsm_parse parse_float i (firstn (opts_and_args subs args) args)) as [o1 a1| | |].
      + destruct (skipn (opts_and_args subs args) args) as [|arg rest].
        * assert (Hflow : forall a, a <> HAbsent ->
                     flowed (let (tr, o) := run_flow (levels ++ [mkLevel b af]) a in
                             mkResult (outcome_of_flow o) (trace_of (paths ++ [path]) tr) err (filled ++ [(path, o1, a1)]))).
          { intros a Ha. exists (levels ++ [mkLevel b af]), (paths ++ [path]), a.
            destruct (run_flow (levels ++ [mkLevel b af]) a) as [tr o]. cbn [r_outcome r_trace fst snd].
            repeat split; [assumption | now destruct levels | rewrite !app_length; cbn; lia]. }
          destruct act.
          -- destruct (print_help parse_float getenv path _ i false) as [text r]. now left.
          -- right. apply Hflow. discriminate.
          -- right. apply Hflow. discriminate.
          -- right. apply Hflow. discriminate.
        * assert (Hl' : length (paths ++ [path]) = length (levels ++ [mkLevel b af])) by (rewrite !app_length; cbn; lia).
          specialize (Hdesc arg rest (levels ++ [mkLevel b af]) (paths ++ [path]) (filled ++ [(path, o1, a1)]) Hl').
          destruct (first_some _ subs); [assumption | now left].
      + destruct (print_help parse_float getenv path _ i false) as [text r]. now left.
      + destruct (print_help parse_float getenv path _ i false) as [text r]. now left.
      + now left.
  Qed.

  Theorem run_trace a argv :
    let r := run parse_float getenv a argv in r_trace r = [] \/ flowed r.
  Proof.
    unfold run.
    destruct (do_init parse_float getenv (root_decls a) (c_spec (a_root a))) as [i| | |]; try (now left).
    destruct (a_version a) as [[nm text]|].
    - destruct (match argv with [] => false | a0 :: _ => mem_str a0 (mk_opt_strs nm) end); [now left|].
      now apply parse_cmd_trace.
    - now apply parse_cmd_trace.
  Qed.

  (** ends of Run that are not the end of a step chain *)
  Definition outside_flow (o : routcome) : bool :=
    match o with
    | RRet (Some _) | RPanicErr _ | RPanicSpec _ _ | RPanicDecl _ | RFuel => true
    | _ => false
    end.

  Lemma outcome_of_flow_inside o : outside_flow (outcome_of_flow o) = false.
  Proof. destruct o as [|n|[[v|n]|]]; reflexivity. Qed.

  (** whatever the tree and the argument vector: when Run ends with a usage or conversion error (returned
      or panicked with), or with the panic of a spec or declaration error of ANY command on the way,
      no Before, Action or After has run *)
  Theorem run_error_runs_nothing a argv :
    outside_flow (r_outcome (run parse_float getenv a argv)) = true ->
    r_trace (run parse_float getenv a argv) = [].
  Proof.
    intros Ho. destruct (run_trace a argv) as [H|(ls & ps & act & _ & _ & _ & Hout & _)]; [exact H|].
    rewrite Hout, outcome_of_flow_inside in Ho. discriminate.
  Qed.

  (** whatever the tree and the argument vector: at most one Action runs, and it is the Action of the
      command whose path is the last one entered (the addressed command) *)
  Definition is_action (e : hkind * list str) : bool := match fst e with HAction => true | _ => false end.

  Lemma count_trace_of ps tr : length (filter is_action (trace_of ps tr)) = count_actions tr.
  Proof.
    unfold count_actions, trace_of. induction tr as [|e tr IH]; [reflexivity|].
    cbn [map filter]. unfold is_action at 1. cbn [fst]. destruct (fst e); cbn [length]; rewrite IH; reflexivity.
  Qed.

  Theorem run_at_most_one_action a argv :
    length (filter is_action (r_trace (run parse_float getenv a argv))) <= 1.
  Proof.
    destruct (run_trace a argv) as [H|(ls & ps & act & _ & Hne & _ & _ & Htr)]; [rewrite H; cbn; lia|].
    rewrite Htr, (run_flow_spec ls act Hne), count_trace_of. exact (proj1 (flow_spec_actions ls act)).
  Qed.

  Theorem run_action_is_the_addressed_one a argv p :
    In (HAction, p) (r_trace (run parse_float getenv a argv)) ->
    exists ls ps act, flowed (run parse_float getenv a argv) /\
      r_trace (run parse_float getenv a argv) = trace_of ps (fst (run_flow ls act)) /\
      length ps = length ls /\ p = last ps [].
  Proof.
    intros Hin. destruct (run_trace a argv) as [H|Hf]; [rewrite H in Hin; destruct Hin|].
    destruct Hf as (ls & ps & act & Hact & Hne & Hlen & Hout & Htr).
    exists ls, ps, act. split; [exists ls, ps, act; now repeat split|]. split; [exact Htr|]. split; [exact Hlen|].
    rewrite Htr, (run_flow_spec ls act Hne) in Hin. unfold trace_of in Hin.
    apply in_map_iff in Hin as ([k d] & [= -> <-] & Hin).
    apply (proj2 (flow_spec_actions ls act)) in Hin. subst d. rewrite <- Hlen.
    destruct ps as [|p0 ps] using rev_ind; [destruct ls; [congruence | discriminate]|].
    rewrite app_length, last_last. cbn. replace (length ps + 1 - 1) with (length ps) by lia.
    now rewrite app_nth2, Nat.sub_diag by lia.
  Qed.
End Trace.

(** * Help short-circuits every callback, over the whole tree
    For EVERY tree (after D9 also one with a sub-command named "-h" or "--help") and every argument vector whose first
    help token is preceded by no "--": no Before, no Action and no After runs — whichever command the token
    addresses, whatever precedes and follows it, valid or not. *)
Section HelpTrace.
  Variable parse_float : str -> option str.
  Variable getenv : str -> str.

  Lemma help_index_skipn args : forall n hi, help_index args = Some hi -> n <= hi ->
    help_index (skipn n args) = Some (hi - n).
  Proof.
    induction args as [|a args IH]; intros n hi; cbn [help_index]; [discriminate|].
    destruct n as [|n]; [intros H _; cbn [skipn help_index]; now rewrite Nat.sub_0_r|].
    destruct (str_eqb a s_dd); [discriminate|]. destruct (str_eqb a s_h || str_eqb a s_help).
    - intros [= <-] Hle. lia.
    - destruct (help_index args) as [j|] eqn:Ej; [|discriminate]. intros [= <-] Hle. cbn [skipn].
      rewrite (IH n j eq_refl) by lia. f_equal.
  Qed.

  Theorem parse_cmd_help_runs_nothing c : forall i policy path args levels paths filled err,
    help_index args <> None ->
    r_trace (parse_cmd parse_float getenv c i policy path args levels paths filled err) = [].
  Proof.
    induction c as [n d ld h sp pol ds b act af subs IHsubs] using cmd_rect'.
    intros i policy path args levels paths filled err Hh.
    cbn [parse_cmd c_subs c_before c_after c_action].
    destruct (help_index args) as [hi|] eqn:Ehi; [|congruence].
    destruct (hi <=? opts_and_args subs args) eqn:Hle.
    - destruct (print_help parse_float getenv path _ i true) as [text r]. reflexivity.
    - apply Nat.leb_gt in Hle.
      pose proof (help_index_skipn args (S (opts_and_args subs args)) hi Ehi Hle) as Hsk.
      destruct (skipn (opts_and_args subs args) args) as [|arg rest] eqn:Es; [reflexivity|].
      (* the help token is beyond the token that names the sub-command *)
      assert (Hrest : help_index rest <> None).
      { assert (E : skipn (S (opts_and_args subs args)) args = rest).
        { clear -Es. revert Es. generalize (opts_and_args subs args) as k. intros k. revert args.
          induction k as [|k IHk]; intros [|a args] Es; cbn [skipn] in *; try discriminate; [now injection Es as _ <- | now apply IHk]. }
        rewrite E in Hsk. congruence. }
      clear Hsk Es Ehi Hh Hle.
      induction subs as [|s subs' IHs]; cbn [first_some]; [reflexivity|].
      inversion IHsubs as [|? ? Hps Hrest']; subst.
      destruct (is_alias s arg).
      + destruct (do_init parse_float getenv (c_decls s) (c_spec s)) as [si| | |]; try reflexivity.
        now apply Hps.
      + now apply IHs.
  Qed.

  Theorem run_help_runs_nothing a argv :
    help_index argv <> None -> r_trace (run parse_float getenv a argv) = [].
  Proof.
    intros Hh. unfold run.
    destruct (do_init parse_float getenv (root_decls a) (c_spec (a_root a))) as [i| | |]; try reflexivity.
    destruct (a_version a) as [[nm text]|].
    - destruct (match argv with [] => false | a0 :: _ => mem_str a0 (mk_opt_strs nm) end); [reflexivity|].
      now apply parse_cmd_help_runs_nothing.
    - now apply parse_cmd_help_runs_nothing.
  Qed.
End HelpTrace.
