(** What the options group (options.go, with the D4 repair) does on a command line that reads
    cleanly: it is greedy — it takes, one at a time, the first listed option that has an occurrence
    in the current run, until none has — and what it takes does not depend on which options are
    backed by the environment. Consequences: C12 (an environment value only enlarges the set of
    accepted command lines, and an option written any number of times is still consumed). *)
From MowCli Require Import Base Nfa Matchers Apply View ApplyProofs TermProofs MatcherProofs SimProofs ViewProofs CompleteProofs.

Section Greedy.
  Variable D : optinfo.
  Hypothesis Hnodd : oi_lookup D s_dd = None.
  Hypothesis Hnoeq : oi_lookup D [c_dash; c_eq] = None.

  (** the first listed option that has an occurrence in the current run *)
  Fixpoint first_scan (opts : list nat) (a : list str) : option (nat * str * list str) :=
    match opts with
    | [] => None
    | o :: opts' =>
      match scan D o [] a with
      | Some (v, a') => Some (o, v, a')
      | None => first_scan opts' a
      end
    end.

  Inductive Greedy (opts : list nat) : list str -> list binding -> list str -> Prop :=
  | GStop a : first_scan opts a = None -> Greedy opts a [] a
  | GStep a o v a' bs m :
      first_scan opts a = Some (o, v, a') -> Greedy opts a' bs m -> Greedy opts a ((KO o, v) :: bs) m.

  Lemma greedy_det opts a b1 m1 : Greedy opts a b1 m1 -> forall b2 m2, Greedy opts a b2 m2 -> b1 = b2 /\ m1 = m2.
  Proof.
    induction 1 as [a Hn | a o v a' bs m Hf Hg IH]; intros b2 m2 H2; inversion H2; subst; try congruence.
    - auto.
    - match goal with H : first_scan opts a = Some (?o2, ?v2, ?a2) |- _ => rewrite Hf in H; injection H as <- <- <- end.
      match goal with H : Greedy opts a' _ _ |- _ => destruct (IH _ _ H) as [-> ->] end. auto.
  Qed.

  Lemma scan_nil o pre : scan D o pre [] = None.
  Proof. reflexivity. Qed.

  (** the single-option matcher in terms of the scan *)
  Lemma m_opt_scan o a : m_opt D o a false =
    match scan D o [] a with
    | Some (v, rem) => Some (rem, false, [(KO o, v)])
    | None => if oi_fromenv D o then Some (a, false, []) else None
    end.
  Proof. unfold m_opt. destruct a; reflexivity. Qed.

  (** [scan] finds something iff [take] does *)
  Lemma scan_none_iff o a u : Reads D a u -> (scan D o [] a = None <-> take o u = None).
  Proof.
    intros Hr. pose proof (scan_reads D Hnodd Hnoeq o a u Hr []) as H.
    destruct (take o u) as [[v u']|].
    - destruct H as (a' & -> & _). split; discriminate.
    - tauto.
  Qed.

  Lemma take_none_after p o u v u' : take p u = None -> take o u = Some (v, u') -> take p u' = None.
  Proof.
    revert v u'. induction u as [|s u IH]; intros v u'; cbn [take]; [discriminate|].
    destruct s as [q w|t|]; try discriminate.
    destruct (Nat.eqb p q) eqn:Epq; [discriminate|].
    destruct (take p u) as [[vp up]|] eqn:Tp; [discriminate|]. intros _.
    destruct (Nat.eqb o q).
    - intros [= <- <-]. exact Tp.
    - destruct (take o u) as [[vo uo]|]; [|discriminate]. intros [= <- <-].
      cbn [take]. rewrite Epq. now rewrite (IH vo uo eq_refl eq_refl).
  Qed.

  Lemma scan_none_after p o a u v a' : Reads D a u ->
    scan D p [] a = None -> scan D o [] a = Some (v, a') ->
    exists u', Reads D a' u' /\ scan D p [] a' = None.
  Proof.
    intros Hr Hp Ho. pose proof (scan_reads D Hnodd Hnoeq o a u Hr []) as H.
    destruct (take o u) as [[v0 u']|] eqn:To; [|congruence].
    destruct H as (a0 & E & Hr'). rewrite Ho in E. injection E as <- <-. exists u'. split; [assumption|].
    apply (scan_none_iff p a' u' Hr'). apply (scan_none_iff p a u Hr) in Hp. eapply take_none_after; eauto.
  Qed.

  (** excluded options have no occurrence in the current run *)
  Definition ExInv (ex : list nat) (a : list str) : Prop := forall p, In p ex -> scan D p [] a = None.

  (** under the invariant, the first pass of options.try is the first successful scan *)
  Lemma try_consume_first_scan opts : forall ex a, ExInv ex a ->
    try_consume D opts ex a = match first_scan opts a with Some (o, v, r) => Some (r, [(KO o, v)]) | None => None end.
  Proof.
    induction opts as [|o opts IH]; intros ex a Hinv; cbn [try_consume first_scan]; [reflexivity|].
    destruct (mem_nat o ex) eqn:Hm.
    - apply mem_nat_In in Hm. rewrite (Hinv o Hm). now apply IH.
    - rewrite m_opt_scan. destruct (scan D o [] a) as [[v rem]|] eqn:Es; [reflexivity|].
      destruct (oi_fromenv D o); now apply IH.
  Qed.

  Lemma try_env_cases opts : forall ex a p, try_env D opts ex a = Some p ->
    In p opts /\ oi_fromenv D p = true /\ scan D p [] a = None.
  Proof.
    induction opts as [|o opts IH]; intros ex a p; cbn [try_env]; [discriminate|].
    destruct (mem_nat o ex).
    - intros H. destruct (IH _ _ _ H) as (I & X). split; [now right | exact X].
    - rewrite m_opt_scan. destruct (scan D o [] a) as [[v rem]|] eqn:Es.
      + intros H. destruct (IH _ _ _ H) as (I & X). split; [now right | exact X].
      + destruct (oi_fromenv D o) eqn:He.
        * intros [= <-]. repeat split; auto. now left.
        * intros H. destruct (IH _ _ _ H) as (I & X). split; [now right | exact X].
  Qed.

  Lemma try_opts_cases opts : forall ex a r bs ex1, ExInv ex a ->
    try_opts D opts ex a = Some (r, bs, ex1) ->
    (r = a /\ bs = [] /\ exists p, ex1 = p :: ex /\ scan D p [] a = None /\ (In p opts /\ oi_fromenv D p = true)) \/
    (exists o v, first_scan opts a = Some (o, v, r) /\ bs = [(KO o, v)] /\ ex1 = ex).
  Proof.
    intros ex a r bs ex1 Hinv. unfold try_opts. rewrite (try_consume_first_scan opts ex a Hinv).
    destruct (first_scan opts a) as [[[o v] r0]|] eqn:Ef.
    - intros [= <- <- <-]. right. exists o, v. auto.
    - destruct (try_env D opts ex a) as [p|] eqn:Ee; [|discriminate]. intros [= <- <- <-].
      destruct (try_env_cases _ _ _ _ Ee) as (I & He & Hs). left. repeat split; auto. exists p. auto.
  Qed.

  Lemma try_opts_none opts : forall ex a, ExInv ex a -> try_opts D opts ex a = None -> first_scan opts a = None.
  Proof.
    intros ex a Hinv. unfold try_opts. rewrite (try_consume_first_scan opts ex a Hinv).
    destruct (first_scan opts a) as [[[o v] r0]|]; [discriminate | reflexivity].
  Qed.

  Lemma first_scan_nil opts : first_scan opts [] = None.
  Proof. induction opts; cbn; auto. Qed.

  (** whatever the loop of options.Match returns is the greedy result *)
  Theorem group_loop_greedy f : forall opts ex a acc u m b,
    Reads D a u -> ExInv ex a ->
    group_loop D f opts ex a acc = Some (m, b) -> exists bs, b = acc ++ bs /\ Greedy opts a bs m.
  Proof.
    induction f as [|f IH]; intros opts ex a acc u m b Hr Hinv; cbn [group_loop]; [discriminate|].
    unfold try_. destruct a as [|t rest].
    { intros [= <- <-]. exists []. split; [now rewrite app_nil_r|]. constructor. apply first_scan_nil. }
    destruct (try_opts D opts ex (t :: rest)) as [[[r bs] ex1]|] eqn:Et.
    - intros Hg. destruct (try_opts_cases _ _ _ _ _ _ Hinv Et) as [(-> & -> & p & -> & Hp & _)|(o & v & Hf & -> & ->)].
      + rewrite app_nil_r in Hg. apply (IH opts (p :: ex) (t :: rest) acc u m b Hr); [|exact Hg].
        intros q [<-|Hq]; [exact Hp | now apply Hinv].
      + assert (Hs : scan D o [] (t :: rest) = Some (v, r)).
        { clear -Hf. induction opts as [|o' opts IHo]; cbn [first_scan] in Hf; [discriminate|].
          destruct (scan D o' [] (t :: rest)) as [[v' r']|] eqn:E; [now injection Hf as <- <- <- | auto]. }
        assert (Hr' : exists u', Reads D r u').
        { pose proof (scan_reads D Hnodd Hnoeq o _ u Hr []) as H. destruct (take o u) as [[v0 u']|]; [|congruence].
          destruct H as (a0 & E & Hr0). rewrite Hs in E. injection E as <- <-. eauto. }
        destruct Hr' as (u' & Hr').
        destruct (IH opts ex r (acc ++ [(KO o, v)]) u' m b Hr') as (bs' & -> & Hg'); [|exact Hg|].
        * intros p Hp. destruct (scan_none_after p o _ u v r Hr (Hinv p Hp) Hs) as (_ & _ & H). exact H.
        * exists ((KO o, v) :: bs'). split; [now rewrite <- app_assoc|]. eapply GStep; eauto.
    - intros [= <- <-]. exists []. split; [now rewrite app_nil_r|]. constructor.
      now apply (try_opts_none opts ex).
  Qed.

  (** the group matcher: greedy, and it succeeds iff it took something or a listed option is backed
      by the environment *)
  Theorem m_group_greedy_env opts a u m ro b : Reads D a u ->
    m_group D opts a false = Some (m, ro, b) ->
    ro = false /\ a <> [] /\ Greedy opts a b m /\ (b <> [] \/ exists o, In o opts /\ oi_fromenv D o = true).
  Proof.
    intros Hr. unfold m_group, try_. destruct a as [|t rest]; [discriminate|].
    destruct (try_opts D opts [] (t :: rest)) as [[[r bs] ex1]|] eqn:Et; [|discriminate].
    destruct (group_loop D (group_fuel opts (t :: rest)) opts ex1 r bs) as [[m0 b0]|] eqn:Eg; [|discriminate].
    intros [= <- <- <-]. split; [reflexivity|]. split; [discriminate|].
    assert (Hinv0 : ExInv [] (t :: rest)) by (intros p []).
    destruct (try_opts_cases _ _ _ _ _ _ Hinv0 Et) as [(-> & -> & p & -> & Hp & Hin & He)|(o & v & Hf & -> & ->)].
    - assert (Hinv1 : ExInv [p] (t :: rest)) by (intros q [<-|[]]; exact Hp).
      destruct (group_loop_greedy _ _ _ _ _ u _ _ Hr Hinv1 Eg) as (bs' & -> & Hg). split; [exact Hg|].
      right. eauto.
    - assert (Hs : scan D o [] (t :: rest) = Some (v, r)).
      { clear -Hf. induction opts as [|o' opts IHo]; cbn [first_scan] in Hf; [discriminate|].
        destruct (scan D o' [] (t :: rest)) as [[v' r']|] eqn:E; [now injection Hf as <- <- <- | auto]. }
      pose proof (scan_reads D Hnodd Hnoeq o _ u Hr []) as H. destruct (take o u) as [[v0 u']|]; [|congruence].
      destruct H as (a0 & E & Hr0). rewrite Hs in E. injection E as <- <-.
      assert (Hinv1 : ExInv [] r) by (intros q []).
      destruct (group_loop_greedy _ _ _ _ _ u' _ _ Hr0 Hinv1 Eg) as (bs' & -> & Hg).
      cbn [List.app]. split; [eapply GStep; eauto | left; discriminate].
  Qed.

  Theorem m_group_greedy opts a u m ro b : Reads D a u ->
    m_group D opts a false = Some (m, ro, b) -> ro = false /\ Greedy opts a b m.
  Proof. intros Hr Hg. destruct (m_group_greedy_env opts a u m ro b Hr Hg) as (H1 & _ & H2 & _). auto. Qed.

  (** and it does succeed whenever a listed option has an occurrence in the run or is backed by the
      environment, on a non-empty line *)
  Lemma try_opts_some opts : forall ex a o,
    In o opts -> mem_nat o ex = false -> (scan D o [] a <> None \/ oi_fromenv D o = true) -> try_opts D opts ex a <> None.
  Proof.
    intros ex a o Hin Hm Ho. unfold try_opts.
    destruct (try_consume D opts ex a) as [[r b]|] eqn:Ec; [discriminate|].
    assert (Hnone : forall p, In p opts -> mem_nat p ex = false -> scan D p [] a = None).
    { clear -Ec. induction opts as [|q opts IH]; intros p Hin Hp; [destruct Hin|].
      destruct Hin as [->|Hin]; cbn [try_consume] in Ec.
      - rewrite Hp, m_opt_scan in Ec. destruct (scan D p [] a) as [[v rem]|]; [discriminate | reflexivity].
      - apply IH; auto. destruct (mem_nat q ex); [exact Ec|]. rewrite m_opt_scan in Ec.
        destruct (scan D q [] a) as [[v rem]|]; [discriminate|]. destruct (oi_fromenv D q); exact Ec. }
    destruct Ho as [Ho|Ho]; [exfalso; apply Ho; now apply Hnone|].
    assert (He : try_env D opts ex a <> None).
    { clear Ec. induction opts as [|q opts IH]; [destruct Hin|]. cbn [try_env].
      destruct (mem_nat q ex) eqn:Hq.
      - destruct Hin as [->|Hin]; [congruence|]. apply IH; auto. intros p Hp. apply Hnone. now right.
      - rewrite m_opt_scan. rewrite (Hnone q (or_introl eq_refl) Hq).
        destruct (oi_fromenv D q) eqn:Eq; [discriminate|].
        destruct Hin as [->|Hin]; [congruence|]. apply IH; auto. intros p Hp. apply Hnone. now right. }
    destruct (try_env D opts ex a); [discriminate | congruence].
  Qed.

  Theorem m_group_succeeds opts a o : a <> [] -> In o opts ->
    (scan D o [] a <> None \/ oi_fromenv D o = true) -> m_group D opts a false <> None.
  Proof.
    intros Ha Hin Ho. unfold m_group. pose proof (m_group_never_out_of_fuel D opts a) as N.
    assert (T : try_ D opts [] a false <> None).
    { unfold try_. destruct a; [congruence|]. now apply (try_opts_some opts [] _ o). }
    destruct (try_ D opts [] a false) as [[[r0 b0] e0]|]; [|congruence].
    destruct (group_loop D (group_fuel opts a) opts e0 r0 b0) as [[m1 b1]|]; [discriminate | congruence].
  Qed.
End Greedy.

(** * The environment only enlarges *)
Definition same_names (D D' : optinfo) : Prop :=
  (forall n, oi_lookup D' n = oi_lookup D n) /\ (forall o, oi_isbool D' o = oi_isbool D o).
(** [D'] backs at least the options [D] backs *)
Definition more_env (D D' : optinfo) : Prop :=
  same_names D D' /\ forall o, oi_fromenv D o = true -> oi_fromenv D' o = true.

Section Ext.
  Variables D D' : optinfo.
  Hypothesis Hsame : same_names D D'.

  Lemma match_long_ext one arg after : match_long D' one arg after = match_long D one arg after.
  Proof. destruct Hsame as [Hl Hb]. unfold match_long. destruct (split_eq arg) as [n v]. rewrite Hl. destruct (oi_lookup D n); [|reflexivity]. now rewrite Hb. Qed.

  Lemma short_loop_ext one suf : forall pre after, short_loop D' one pre suf after = short_loop D one pre suf after.
  Proof.
    destruct Hsame as [Hl Hb]. induction suf as [|c value IH]; intros pre after; cbn [short_loop]; [reflexivity|].
    rewrite Hl. destruct (oi_lookup D [c_dash; c]) as [o|]; [|reflexivity]. rewrite Hb. destruct (oi_isbool D o); [|reflexivity].
    now rewrite IH.
  Qed.

  Lemma match_short_ext one arg after : match_short D' one arg after = match_short D one arg after.
  Proof.
    destruct Hsame as [Hl Hb]. unfold match_short. destruct arg as [|d [|n rest]]; try reflexivity.
    destruct rest as [|e value]; [apply short_loop_ext|]. destruct (Ascii.eqb e c_eq); [now rewrite Hl | apply short_loop_ext].
  Qed.

  Lemma scan_ext one rest : forall pre, scan D' one pre rest = scan D one pre rest.
  Proof.
    assert (Hn : forall n rest, length rest <= n -> forall pre, scan D' one pre rest = scan D one pre rest).
    { induction n as [|n IH]; intros rest0 Hlen pre; (destruct rest0 as [|arg after]; [reflexivity|]); cbn [length] in Hlen; [lia|].
      cbn [scan]. rewrite match_long_ext, match_short_ext.
      destruct (str_eqb arg s_dash); [reflexivity|]. destruct (str_eqb arg s_dd); [reflexivity|].
      destruct (dashed arg); [|reflexivity].
      destruct (if prefix_b s_dd arg then match_long D one arg after else match_short D one arg after) as [v tl|[|[|k]]]; try reflexivity.
      - apply IH. lia.
      - destruct after as [|a2 after2]; [reflexivity|]. apply IH. cbn in Hlen. lia. }
    intros pre. now apply (Hn (length rest)).
  Qed.

  Lemma first_scan_ext opts a : first_scan D' opts a = first_scan D opts a.
  Proof. induction opts as [|o opts IH]; cbn [first_scan]; [reflexivity|]. now rewrite scan_ext, IH. Qed.

  Lemma greedy_ext opts a b m : Greedy D opts a b m -> Greedy D' opts a b m.
  Proof.
    induction 1 as [a Hn | a o v a' bs m Hf Hg IH].
    - constructor. now rewrite first_scan_ext.
    - eapply GStep; [rewrite first_scan_ext; exact Hf | exact IH].
  Qed.
End Ext.

Section Mono.
  Variables D D' : optinfo.
  Hypothesis Hmore : more_env D D'.
  Hypothesis Hnodd : oi_lookup D s_dd = None.
  Hypothesis Hnoeq : oi_lookup D [c_dash; c_eq] = None.

  Let Hsame : same_names D D' := proj1 Hmore.

  Lemma Hnodd' : oi_lookup D' s_dd = None.
  Proof. destruct Hsame as [Hl _]. now rewrite Hl. Qed.
  Lemma Hnoeq' : oi_lookup D' [c_dash; c_eq] = None.
  Proof. destruct Hsame as [Hl _]. now rewrite Hl. Qed.

  (** the reading does not depend on the environment *)
  Lemma flags_ext fs us : Flags D fs us -> Flags D' fs us.
  Proof. destruct Hsame as [Hl Hb]. induction 1 as [|c o fs us H1 H2 Hf IH]; [constructor|]. apply (FlCons D' c o); [now rewrite Hl | now rewrite Hb | exact IH]. Qed.

  Lemma reads_ext a u : Reads D a u -> Reads D' a u.
  Proof.
    destruct Hsame as [Hl Hb].
    induction 1; try (constructor; auto; fail).
    - apply RLongEq; auto. now rewrite Hl.
    - apply RLongFlag; auto; [now rewrite Hl | now rewrite Hb].
    - apply RLongSep; auto; [now rewrite Hl | now rewrite Hb].
    - apply RShortEq; auto. now rewrite Hl.
    - apply RFoldEnd; auto. now apply flags_ext.
    - apply RFoldAtt; auto; [now apply flags_ext | now rewrite Hl | now rewrite Hb].
    - apply RFoldSep; auto; [now apply flags_ext | now rewrite Hl | now rewrite Hb].
  Qed.

  Lemma m_opt_mono o a ro r : m_opt D o a ro = Some r -> m_opt D' o a ro = Some r.
  Proof.
    pose proof (proj2 Hmore) as He. unfold m_opt. rewrite (scan_ext D D' Hsame).
    assert (Hfb : (if oi_fromenv D o then Some (a, ro, []) else None) = Some r ->
                  (if oi_fromenv D' o then Some (a, ro, []) else None) = Some r).
    { destruct (oi_fromenv D o) eqn:E; [|discriminate]. now rewrite (He o E). }
    destruct a as [|t rest]; [exact Hfb|]. destruct ro; [exact Hfb|].
    destruct (scan D o [] (t :: rest)) as [[v rem]|]; [auto | exact Hfb].
  Qed.

  Lemma try_consume_mono opts : forall ex a, try_consume D' opts ex a = try_consume D opts ex a.
  Proof.
    induction opts as [|o opts IH]; intros ex a; cbn [try_consume]; [reflexivity|].
    destruct (mem_nat o ex); [apply IH|]. unfold m_opt. rewrite (scan_ext D D' Hsame).
    destruct a as [|t rest].
    - destruct (oi_fromenv D o), (oi_fromenv D' o); apply IH.
    - destruct (scan D o [] (t :: rest)) as [[v rem]|]; [reflexivity|].
      destruct (oi_fromenv D o), (oi_fromenv D' o); apply IH.
  Qed.

  Lemma try_env_some_mono opts : forall ex a, try_env D opts ex a <> None -> try_env D' opts ex a <> None.
  Proof.
    pose proof (proj2 Hmore) as He.
    induction opts as [|o opts IH]; intros ex a; cbn [try_env]; [auto|].
    destruct (mem_nat o ex); [apply IH|]. unfold m_opt. rewrite (scan_ext D D' Hsame).
    destruct a as [|t rest].
    - destruct (oi_fromenv D o) eqn:E1, (oi_fromenv D' o) eqn:E2; cbn; intros H; try discriminate; try (now apply IH).
      rewrite (He o E1) in E2. discriminate.
    - destruct (scan D o [] (t :: rest)) as [[v rem]|]; [apply IH|].
      destruct (oi_fromenv D o) eqn:E1, (oi_fromenv D' o) eqn:E2; cbn; intros H; try discriminate; try (now apply IH).
      rewrite (He o E1) in E2. discriminate.
  Qed.

  Lemma try_opts_some_mono opts : forall ex a, try_opts D opts ex a <> None -> try_opts D' opts ex a <> None.
  Proof.
    intros ex a. unfold try_opts. rewrite try_consume_mono.
    destruct (try_consume D opts ex a) as [[r b]|]; [discriminate|].
    intros H. assert (He : try_env D' opts ex a <> None).
    { apply try_env_some_mono. destruct (try_env D opts ex a); [discriminate | congruence]. }
    destruct (try_env D' opts ex a); [discriminate | congruence].
  Qed.

  (** the group matcher: whatever it does without the extra environment values it does with them *)
  Theorem m_group_mono opts a u r : Reads D a u ->
    m_group D opts a false = Some r -> m_group D' opts a false = Some r.
  Proof.
    intros Hr Hg. destruct r as [[m ro] b].
    destruct (m_group_greedy D Hnodd Hnoeq opts a u m ro b Hr Hg) as [-> G].
    (* with the environment: it succeeds *)
    assert (Hsome : m_group D' opts a false <> None).
    { unfold m_group in Hg |- *. pose proof (m_group_never_out_of_fuel D' opts a) as N.
      assert (T : try_ D' opts [] a false <> None).
      { unfold try_ in Hg |- *. destruct a as [|t rest]; [discriminate|]. apply try_opts_some_mono.
        destruct (try_opts D opts [] (t :: rest)); [discriminate | discriminate]. }
      destruct (try_ D' opts [] a false) as [[[r0 b0] e0]|]; [|congruence].
      destruct (group_loop D' (group_fuel opts a) opts e0 r0 b0) as [[m1 b1]|]; [discriminate | congruence]. }
    destruct (m_group D' opts a false) as [[[m' ro'] b']|] eqn:Eg'; [|congruence].
    destruct (m_group_greedy D' Hnodd' Hnoeq' opts a u m' ro' b' (reads_ext _ _ Hr) Eg') as [-> G'].
    destruct (greedy_det D' opts a b m (greedy_ext D D' Hsame _ _ _ _ G) b' m' G') as [-> ->]. reflexivity.
  Qed.

  (** every matcher step possible without the extra environment values is possible with them *)
  Lemma step_mono l a ro u r : View D a ro u ->
    run_matcher D l a ro = Some r -> run_matcher D' l a ro = Some r.
  Proof.
    intros Hv. destruct l as [|i|o|js|]; cbn [run_matcher]; auto.
    - apply m_opt_mono.
    - destruct ro.
      + unfold m_group, try_. destruct a; discriminate.
      + now apply m_group_mono with u.
  Qed.
End Mono.

(** * The group matcher is monotone in the environment on EVERY command line (D8)
    Since options.try prefers an option that finds an occurrence of itself to one satisfied by its environment
    value, the group consumes the same occurrences, in the same order, whatever the environment backs: the
    environment only adds steps that consume nothing. No hypothesis on the command line. *)
Section ExhaustedLoop.
  Variable D : optinfo.

  Lemma try_consume_ex_none opts : forall ex a, try_consume D opts [] a = None -> try_consume D opts ex a = None.
  Proof.
    induction opts as [|o opts IH]; intros ex a; cbn [try_consume mem_nat]; [reflexivity|].
    destruct (m_opt D o a false) as [[[m ro] [|b bs]]|]; destruct (mem_nat o ex); try discriminate; apply IH.
  Qed.

  (** once no listed option finds an occurrence of itself, the loop only excludes options: it returns the
      arguments and the bindings it was entered with *)
  Lemma exhausted_loop opts f : forall ex a acc r,
    try_consume D opts [] a = None -> group_loop D f opts ex a acc = Some r -> r = (a, acc).
  Proof.
    induction f as [|f IH]; intros ex a acc r Hx; cbn [group_loop]; [discriminate|].
    unfold try_. destruct a as [|t rest]; [now intros [= <-]|].
    unfold try_opts. rewrite (try_consume_ex_none opts ex _ Hx).
    destruct (try_env D opts ex (t :: rest)) as [o|]; [|now intros [= <-]].
    rewrite app_nil_r. now apply IH.
  Qed.
End ExhaustedLoop.

Section MonoAll.
  Variables D D' : optinfo.
  Hypothesis Hmore : more_env D D'.

  Lemma consume_loop_mono opts f : forall a acc r,
    group_loop D f opts [] a acc = Some r -> forall f' r', group_loop D' f' opts [] a acc = Some r' -> r' = r.
  Proof.
    induction f as [|f IH]; intros a acc r; [discriminate|]. intros H [|f'] r' H'; [discriminate|].
    destruct (try_consume D opts [] a) as [[rem bs]|] eqn:Ec.
    - cbn [group_loop] in H, H'. unfold try_ in H, H'. destruct a as [|t rest]; [congruence|].
      unfold try_opts in H, H'. rewrite (try_consume_mono D D' Hmore) in H'. rewrite Ec in H, H'.
      exact (IH _ _ _ H f' r' H').
    - rewrite (exhausted_loop D opts _ _ _ _ _ Ec H).
      assert (Ec' : try_consume D' opts [] a = None) by (now rewrite (try_consume_mono D D' Hmore)).
      exact (exhausted_loop D' opts _ _ _ _ _ Ec' H').
  Qed.

  Theorem m_group_mono_all opts a r : m_group D opts a false = Some r -> m_group D' opts a false = Some r.
  Proof.
    unfold m_group. pose proof (m_group_never_out_of_fuel D' opts a) as N.
    unfold try_ in *. destruct a as [|t rest]; [discriminate|].
    destruct (try_opts D opts [] (t :: rest)) as [[[rem0 bs0] ex0]|] eqn:Et; [|discriminate].
    assert (T : try_opts D' opts [] (t :: rest) <> None) by (apply (try_opts_some_mono D D' Hmore); congruence).
    destruct (try_opts D' opts [] (t :: rest)) as [[[rem1 bs1] ex1]|] eqn:Et'; [|congruence].
    destruct (group_loop D (group_fuel opts (t :: rest)) opts ex0 rem0 bs0) as [[m b]|] eqn:Eg; [|discriminate].
    destruct (group_loop D' (group_fuel opts (t :: rest)) opts ex1 rem1 bs1) as [[m' b']|] eqn:Eg'; [|congruence].
    intros [= <-]. unfold try_opts in Et, Et'. rewrite (try_consume_mono D D' Hmore) in Et'.
    destruct (try_consume D opts [] (t :: rest)) as [[rem bs]|] eqn:Ec.
    - injection Et as <- <- <-. injection Et' as <- <- <-.
      pose proof (consume_loop_mono opts _ _ _ _ Eg _ _ Eg') as E. injection E as -> ->. reflexivity.
    - destruct (try_env D opts [] (t :: rest)) as [o|]; [|discriminate]. injection Et as <- <- <-.
      destruct (try_env D' opts [] (t :: rest)) as [o'|]; [|discriminate]. injection Et' as <- <- <-.
      pose proof (exhausted_loop D opts _ _ _ _ _ Ec Eg) as E1. injection E1 as -> ->.
      assert (Ec' : try_consume D' opts [] (t :: rest) = None) by (now rewrite (try_consume_mono D D' Hmore)).
      pose proof (exhausted_loop D' opts _ _ _ _ _ Ec' Eg') as E2. injection E2 as -> ->. reflexivity.
  Qed.

  (** every matcher step possible without the extra environment values is possible with them, whatever the
      command line looks like *)
  Lemma step_mono_all l a ro r : run_matcher D l a ro = Some r -> run_matcher D' l a ro = Some r.
  Proof.
    destruct l as [|i|o|js|]; cbn [run_matcher]; auto.
    - apply (m_opt_mono D D' Hmore).
    - destruct ro; [unfold m_group, try_; destruct a; discriminate | apply m_group_mono_all].
  Qed.
End MonoAll.
