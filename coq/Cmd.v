(** commands.go / cli.go / options.go / args.go: declarations (mkOpt, mkArg), doInit,
    Cmd.parse (help scan, argument split, per-level validation, descent, flow wiring),
    onError, the version flag, printHelp, fillContainers, Cli.Run. *)
From MowCli Require Import Base Lexer Parser Nfa Matchers Apply Values Flow.

(** * Declarations *)

Record decl := mkDecl {
  d_isopt : bool;
  d_kind : kind;
  d_name : str;        (* the Name field verbatim *)
  d_desc : str;
  d_env : str;         (* the EnvVar field verbatim *)
  d_hide : bool;
  d_init : cval;       (* the Value field: the declared default *)
  d_sbu : bool         (* a SetByUser pointer was given *)
}.

Record container := mkCont {
  ct_decl : decl;
  ct_names : list str;     (* options: mkOptStrs(Name); arguments: [Name] *)
  ct_value : cval;
  ct_default : str;        (* DefaultValue, captured before the environment is applied *)
  ct_fromenv : bool;       (* ValueSetFromEnv *)
  ct_user : bool           (* *ValueSetByUser *)
}.

Definition set_value (c : container) (v : cval) : container :=
  mkCont (ct_decl c) (ct_names c) v (ct_default c) (ct_fromenv c) (ct_user c).

(** mkOptStrs *)
Definition mk_opt_strs (name : str) : list str :=
  map (fun n => match n with
                | [_] => c_dash :: n
                | _ => c_dash :: c_dash :: n
                end) (fields name).

Definition lookup_name (cs : list container) (name : str) : option nat :=
  find_index (fun c => mem_str name (ct_names c)) cs.

(** validArgName *)
Definition valid_arg_name (n : str) : bool :=
  match tokenize n with
  | LexOk [t] => ttype_eqb (tk_typ t) TArg
  | _ => false
  end.

Definition msg_dup_opt (n : str) := lit "duplicate option name " ++ quote n.
Definition msg_dup_arg (n : str) := lit "duplicate argument name " ++ quote n.
Definition msg_bad_arg (n : str) := lit "invalid argument name " ++ quote n ++ lit ": must be in all caps".

Section WithEnv.
  Variable parse_float : str -> option str.
  Variable getenv : str -> str.

  (** first of [names] already in the table; names earlier in the same list count too *)
  Fixpoint first_dup (seen : list str) (names : list str) : option str :=
    match names with
    | [] => None
    | n :: names' => if mem_str n seen then Some n else first_dup (n :: seen) names'
    end.

  Definition all_names (cs : list container) : list str := flat_map ct_names cs.

  (** mkOpt / mkArg: the container, or the panic message *)
  Definition mk_container (d : decl) (names : list str) : container :=
    let dv := default_value (d_kind d) (d_init d) in
    let (v, fromenv) := set_from_env parse_float getenv (d_kind d) (d_init d) (d_env d) in
    mkCont d names v dv fromenv false.

  Definition mk_opt (opts : list container) (d : decl) : container + str :=
    let names := mk_opt_strs (d_name d) in
    match first_dup (all_names opts) names with
    | Some n => inr (msg_dup_opt n)
    | None => inl (mk_container d names)
    end.

  Definition mk_arg (args : list container) (d : decl) : container + str :=
    if negb (valid_arg_name (d_name d)) then inr (msg_bad_arg (d_name d))
    else if mem_str (d_name d) (all_names args) then inr (msg_dup_arg (d_name d))
    else inl (mk_container d [d_name d]).

  (** the declarations of one command, in order *)
  Fixpoint declare (ds : list decl) (opts args : list container)
    : list container * list container + str :=
    match ds with
    | [] => inl (opts, args)
    | d :: ds' =>
      if d_isopt d then
        match mk_opt opts d with
        | inl c => declare ds' (opts ++ [c]) args
        | inr m => inr m
        end
      else
        match mk_arg args d with
        | inl c => declare ds' opts (args ++ [c])
        | inr m => inr m
        end
    end.

  (** * doInit *)

  Record inited := mkInit {
    i_opts : list container;
    i_args : list container;
    i_spec : str;            (* Spec after defaulting *)
    i_start : nat;
    i_graph : graph
  }.

  Inductive init_res :=
  | IOk (i : inited)
  | ISpecErr (msg : str) (pos : nat)
  | IDeclPanic (msg : str)
  | IFuel.

  Definition default_spec (opts args : list container) : str :=
    (match opts with [] => [] | _ => lit "[OPTIONS] " end)
      ++ flat_map (fun a => d_name (ct_decl a) ++ [c_space]) args.

  Definition compile (opts args : list container) (spec : str) : init_res :=
    match tokenize spec with
    | LexErr m p => ISpecErr m p
    | LexFuel => IFuel
    | LexOk toks =>
      match parse_tokens (lookup_name opts) (lookup_name args) (length spec) toks with
      | ParseErr m p => ISpecErr m p
      | ParseFuel => IFuel
      | ParseOk ast =>
        let (start, g) := thompson (length opts) ast in
        match prepare start g with
        | Some g' => IOk (mkInit opts args spec start g')
        | None => IFuel
        end
      end
    end.

  Definition do_init (ds : list decl) (spec : str) : init_res :=
    match declare ds [] [] with
    | inr m => IDeclPanic m
    | inl (opts, args) =>
      let spec' := match spec with [] => default_spec opts args | _ => spec end in
      compile opts args spec'
    end.

  (** * fsm.Parse: apply, then fillContainers *)

  Definition optinfo_of (opts : list container) : optinfo :=
    mkOI (lookup_name opts)
         (fun i => match nth_error opts i with
                   | Some c => is_boolflag (d_kind (ct_decl c)) | None => false end)
         (fun i => match nth_error opts i with
                   | Some c => ct_fromenv c | None => false end).

  Definition values_for (k : key) (bs : list binding) : list str :=
    map snd (filter (fun b : binding => key_eqb (fst b) k) bs).

  Fixpoint set_all (v : cval) (vs : list str) : option cval :=
    match vs with
    | [] => Some v
    | s :: vs' => let (v', ok) := vset_log parse_float v s in
                  if ok then set_all v' vs' else None
    end.

  (** one container of fillContainers; [None] = a Set failed *)
  Definition fill_one (c : container) (vs : list str) : option container :=
    match vs with
    | [] => Some c
    | _ =>
      let v0 := if is_multi (d_kind (ct_decl c)) then vclear (ct_value c) else ct_value c in
      match set_all v0 vs with
      | Some v => Some (mkCont (ct_decl c) (ct_names c) v (ct_default c) false true)
      | None => None
      end
    end.

  Fixpoint fill (cs : list container) (i : nat) (mk : nat -> key) (bs : list binding)
    : option (list container) :=
    match cs with
    | [] => Some []
    | c :: cs' =>
      match fill_one c (values_for (mk i) bs) with
      | Some c' => option_map (cons c') (fill cs' (S i) mk bs)
      | None => None
      end
    end.

  Inductive parse_res :=
  | PAccept (opts args : list container)
  | PUsage            (* "incorrect usage" *)
  | PConv             (* a Set returned an error *)
  | PFuelOut.

  Definition fsm_parse (i : inited) (argv : list str) : parse_res :=
    match fsm_apply (optinfo_of (i_opts i)) (i_graph i) (i_start i) argv with
    | AFuel => PFuelOut
    | AFail => PUsage
    | AOk bs =>
      match fill (i_opts i) 0 KO bs with
      | None => PConv
      | Some opts' =>
        match fill (i_args i) 0 KA bs with
        | None => PConv
        | Some args' => PAccept opts' args'
        end
      end
    end.

  (** * fillContainers as the library runs it since D11, failure included: the containers that were bound something are
      visited in the order of their declared names; the first failing Set aborts the pass and leaves the containers as
      they are at that point -- the earlier ones filled (value, SetByUser, ValueSetFromEnv cleared), the failing one
      cleared (if multi-valued) and holding what was set before the failure, its flags untouched, the later ones untouched *)
  Fixpoint set_all_partial (v : cval) (vs : list str) : cval * bool :=
    match vs with
    | [] => (v, true)
    | s :: vs' => let (v', ok) := vset_log parse_float v s in
                  if ok then set_all_partial v' vs' else (v', false)
    end.

  Definition fill_one_partial (c : container) (vs : list str) : container * bool :=
    let v0 := if is_multi (d_kind (ct_decl c)) then vclear (ct_value c) else ct_value c in
    let (v, ok) := set_all_partial v0 vs in
    if ok then (mkCont (ct_decl c) (ct_names c) v (ct_default c) false true, true)
    else (mkCont (ct_decl c) (ct_names c) v (ct_default c) (ct_fromenv c) (ct_user c), false).

  Fixpoint insert_by_name (cs : list container) (k : nat) (l : list nat) : list nat :=
    match l with
    | [] => [k]
    | j :: l' =>
      let name i := match nth_error cs i with Some c => d_name (ct_decl c) | None => [] end in
      if str_ltb (name j) (name k) then j :: insert_by_name cs k l' else k :: l
    end.

  (** the indices of the containers that were bound something, sorted by declared name *)
  Definition fill_order (cs : list container) (mk : nat -> key) (bs : list binding) : list nat :=
    fold_right (insert_by_name cs) []
               (filter (fun k => match values_for (mk k) bs with [] => false | _ => true end) (List.seq 0 (length cs))).

  Fixpoint fill_partial (cs : list container) (order : list nat) (mk : nat -> key) (bs : list binding)
    : list container * bool :=
    match order with
    | [] => (cs, true)
    | k :: rest =>
      match nth_error cs k with
      | None => fill_partial cs rest mk bs
      | Some c =>
        let (c', ok) := fill_one_partial c (values_for (mk k) bs) in
        if ok then fill_partial (set_nth k c' cs) rest mk bs else (set_nth k c' cs, false)
      end
    end.

  (** what fsm.Parse leaves in the containers, whatever its verdict *)
  Definition fsm_parse_state (i : inited) (argv : list str) : inited :=
    match fsm_apply (optinfo_of (i_opts i)) (i_graph i) (i_start i) argv with
    | AOk bs =>
      let (o', ok) := fill_partial (i_opts i) (fill_order (i_opts i) KO bs) KO bs in
      if ok then
        let (a', _) := fill_partial (i_args i) (fill_order (i_args i) KA bs) KA bs in
        mkInit o' a' (i_spec i) (i_start i) (i_graph i)
      else mkInit o' (i_args i) (i_spec i) (i_start i) (i_graph i)
    | _ => i
    end.

  (** the state a second Run of the same application object starts from: the containers as fsm.Parse left them
      (values written, SetByUser set, ValueSetFromEnv cleared where the line gave a value) *)
  Definition after_run (i : inited) (opts' args' : list container) : inited :=
    mkInit opts' args' (i_spec i) (i_start i) (i_graph i).

  (** one command object parsing two lines in turn; the verdict and containers of the second parse.
      (after a conversion error the second parse starts from the partly filled containers: [fsm_parse_state]) *)
  Definition fsm_parse_twice (i : inited) (argv1 argv2 : list str) : option parse_res :=
    match fsm_parse i argv1 with
    | PAccept o' a' => Some (fsm_parse (after_run i o' a') argv2)
    | PConv => Some (fsm_parse (fsm_parse_state i argv1) argv2)
    | _ => Some (fsm_parse i argv2)
    end.

  (** * The command tree *)

  Inductive cmd :=
  | Cmd (name : str)            (* App: the name; Command: the alias list, blank separated *)
        (desc longdesc : str) (hidden : bool) (spec : str)
        (policy : option nat)   (* ErrorHandling set by the command itself; None = inherited *)
        (decls : list decl)
        (before action after : hook)
        (subs : list cmd).

  Definition c_namefield (c : cmd) := let 'Cmd n _ _ _ _ _ _ _ _ _ _ := c in n.
  Definition c_desc (c : cmd) := let 'Cmd _ d _ _ _ _ _ _ _ _ _ := c in d.
  Definition c_longdesc (c : cmd) := let 'Cmd _ _ d _ _ _ _ _ _ _ _ := c in d.
  Definition c_hidden (c : cmd) := let 'Cmd _ _ _ h _ _ _ _ _ _ _ := c in h.
  Definition c_spec (c : cmd) := let 'Cmd _ _ _ _ s _ _ _ _ _ _ := c in s.
  Definition c_policy (c : cmd) := let 'Cmd _ _ _ _ _ p _ _ _ _ _ := c in p.
  Definition c_decls (c : cmd) := let 'Cmd _ _ _ _ _ _ d _ _ _ _ := c in d.
  Definition c_before (c : cmd) := let 'Cmd _ _ _ _ _ _ _ b _ _ _ := c in b.
  Definition c_action (c : cmd) := let 'Cmd _ _ _ _ _ _ _ _ a _ _ := c in a.
  Definition c_after (c : cmd) := let 'Cmd _ _ _ _ _ _ _ _ _ a _ := c in a.
  Definition c_subs (c : cmd) := let 'Cmd _ _ _ _ _ _ _ _ _ _ s := c in s.

  (** aliases of a sub-command; its name is the first one *)
  Definition c_aliases (c : cmd) : list str := fields (c_namefield c).
  Definition c_name (isroot : bool) (c : cmd) : str :=
    if isroot then c_namefield c else hd [] (c_aliases c).
  Definition is_alias (c : cmd) (arg : str) : bool := mem_str arg (c_aliases c).

  Definition s_h := lit "-h".
  Definition s_help := lit "--help".

  (** helpIndex *)
  Fixpoint help_index (args : list str) : option nat :=
    match args with
    | [] => None
    | a :: rest =>
      if str_eqb a s_dd then None
      else if str_eqb a s_h || str_eqb a s_help then Some 0
      else option_map S (help_index rest)
    end.

  (** getOptsAndArgs: number of leading tokens that name no direct sub-command *)
  Fixpoint opts_and_args (subs : list cmd) (args : list str) : nat :=
    match args with
    | [] => 0
    | a :: rest => if existsb (fun s => is_alias s a) subs then 0
                   else S (opts_and_args subs rest)
    end.

  Definition find_sub (subs : list cmd) (arg : str) : option cmd :=
    find (fun s => is_alias s arg) subs.

  (** * Help text (lines before whitespace normalisation; a tab is a column break) *)

  Definition join_strings (parts : list str) : str :=
    fold_left (fun res part =>
                 match trim_space part with
                 | [] => res
                 | _ => (match res with [] => [] | _ => res ++ [c_space] end) ++ part
                 end) parts [].

  Definition format_env (envvars : str) : str :=
    match fields envvars with
    | [] => []
    | vars => lit "(env " ++ concat_str (lit ", ") (map (fun v => "$"%char :: v) vars) ++ lit ")"
    end.

  Definition format_value (hide : bool) (v : str) : str :=
    if hide then [] else match v with [] => [] | _ => lit "(default " ++ v ++ lit ")" end.

  Definition format_opt_names (names : list str) : str :=
    let short := find (fun n => Nat.eqb (length n) 2) names in
    let long := find (fun n => 2 <? length n) names in
    match short, long with
    | Some s, Some l => s ++ lit ", " ++ l
    | Some s, None => s
    | None, Some l => lit "    " ++ l
    | None, None => []
    end.

  (** strings.Split(s, "\n") *)
  Fixpoint split_nl_aux (s : str) (cur : str) : list str :=
    match s with
    | [] => [rev cur]
    | c :: s' => if Ascii.eqb c c_nl then rev cur :: split_nl_aux s' []
                 else split_nl_aux s' (c :: cur)
    end.
  Definition split_nl (s : str) : list str := split_nl_aux s [].

  (** printTabbedRow *)
  Definition tabbed_row (s1 s2 : str) : list str :=
    match split_nl s2 with
    | [] => []
    | l0 :: ls => (lit "  " ++ s1 ++ [c_tab] ++ trim_space l0)
                    :: map (fun l => lit "  " ++ [c_tab] ++ trim_space l) ls
    end.

  Definition container_row (isopt : bool) (c : container) : list str :=
    let d := ct_decl c in
    tabbed_row (if isopt then format_opt_names (ct_names c) else d_name d)
               (join_strings [d_desc d; format_env (d_env d); format_value (d_hide d) (ct_default c)]).

  (** the part written straight to the error stream *)
  Definition help_header (path : list str) (i : inited) (has_subs : bool) (desc : str) : list str :=
    let p := concat_str [c_space] path in
    let spec := trim_space (i_spec i) in
    [(lit "Usage: " ++ p ++ (match spec with [] => [] | _ => c_space :: spec end)
          ++ (if has_subs then lit " COMMAND [arg...]" else []))]
      ++ (match desc with [] => [] | _ => split_nl desc end).

  (** the part that goes through the tabwriter and is flushed at the end *)
  Definition help_table (path : list str) (i : inited) (visible : list cmd) : list str :=
    (match i_args i with [] => [] | args => lit "Arguments:" :: flat_map (container_row false) args end)
      ++ (match i_opts i with [] => [] | opts => lit "Options:" :: flat_map (container_row true) opts end)
      ++ (match visible with
          | [] => []
          | _ => lit "Commands:"
                   :: flat_map (fun s => split_nl (lit "  " ++ concat_str (lit ", ") (c_aliases s)
                                                       ++ [c_tab] ++ c_desc s)) visible
                   ++ [lit "Run '" ++ concat_str [c_space] path
                           ++ lit " COMMAND --help' for more information on a command."]
          end).

  (** * Outcomes of Run *)

  Inductive errclass := EUsage | EConv.

  Inductive routcome :=
  | RRet (err : option errclass)           (* Run returned *)
  | RExit (n : Z)                          (* the process exit function was called *)
  | RPanicUser (v : nat)                   (* a callback's panic value re-raised *)
  | RPanicErr (e : errclass)               (* PanicOnError: the usage error *)
  | RPanicNil                              (* panic(nil): PanicOnError on a command without Action *)
  | RPanicSpec (msg : str) (pos : nat)     (* *lexer.ParseError *)
  | RPanicDecl (msg : str)                 (* declaration panics (strings) *)
  | RFuel.

  Record result := mkResult {
    r_outcome : routcome;
    r_trace : list (hkind * list str);                        (* callback, command path *)
    r_stderr : list str;
    r_levels : list (list str * list container * list container)  (* path, options, args of every
                                                    level whose arguments were accepted, root first *)
  }.

  (** onError for a real error; [None] = continue (ContinueOnError) *)
  Definition on_error (policy : nat) (e : option errclass) : option routcome :=
    match policy with
    | 1 => Some (RExit 2)
    | 2 => Some (match e with Some c => RPanicErr c | None => RPanicNil end)
    | _ => None
    end.

  (** onError(errHelpRequested / errVersionRequested) then return nil *)
  Definition on_help (policy : nat) : routcome :=
    match policy with 1 => RExit 0 | _ => RRet None end.

  (** the children are initialised while printing help; the first failure panics *)
  Fixpoint init_children (subs : list cmd) : option routcome :=
    match subs with
    | [] => None
    | s :: subs' =>
      match do_init (c_decls s) (c_spec s) with
      | IOk _ => init_children subs'
      | ISpecErr m p => Some (RPanicSpec m p)
      | IDeclPanic m => Some (RPanicDecl m)
      | IFuel => Some RFuel
      end
    end.

  (** printHelp: the text written, and the panic that interrupts it if a child fails to
      initialise (the tabwriter is then never flushed) *)
  Definition print_help (path : list str) (c : cmd) (i : inited) (long : bool)
    : list str * option routcome :=
    let desc := if long then match c_longdesc c with [] => c_desc c | d => d end else c_desc c in
    let header := help_header path i (match c_subs c with [] => false | _ => true end) desc in
    match init_children (c_subs c) with
    | Some r => (header, Some r)
    | None => (header ++ help_table path i (filter (fun s => negb (c_hidden s)) (c_subs c)), None)
    end.

  Definition effective_policy (inherited : nat) (c : cmd) : nat :=
    match c_policy c with Some p => p | None => inherited end.

  Definition trace_of (paths : list (list str)) (evs : list event) : list (hkind * list str) :=
    map (fun e : event => (fst e, nth (snd e) paths [])) evs.

  Definition outcome_of_flow (o : outcome) : routcome :=
    match o with
    | Returned => RRet None
    | Exited n => RExit n
    | Panicked (Some (PUser v)) => RPanicUser v
    | Panicked (Some (PExit n)) => RExit n      (* unreachable: every step has an exiter *)
    | Panicked None => RPanicNil
    end.

  Definition s_err_usage := lit "Error: incorrect usage".
  Definition s_err_conv := lit "Error: <conv>".

  (** Cmd.parse. [c] is already initialised as [i]; [path] ends with c's name; [levels],
      [paths], [filled] describe the ancestors whose arguments were accepted; [helping] is
      true in the help descent (no validation, nil flows). *)
  Fixpoint parse_cmd (c : cmd) (i : inited) (policy : nat) (path : list str) (args : list str)
           (levels : list level) (paths : list (list str))
           (filled : list (list str * list container * list container))
           (err : list str) {struct c} : result :=
    let subs := c_subs c in
    let nargs := opts_and_args subs args in
    (* initialise the sub-command named by [arg] and continue there *)
    let descend (arg : str) (rest : list str) (levels' : list level) (paths' : list (list str))
                (filled' : list (list str * list container * list container)) : option result :=
        first_some
          (fun sub =>
             if is_alias sub arg then
               let path' := path ++ [c_name false sub] in
               Some match do_init (c_decls sub) (c_spec sub) with
                    | IOk si => parse_cmd sub si (effective_policy policy sub) path' rest
                                          levels' paths' filled' err
                    | ISpecErr m p => mkResult (RPanicSpec m p) [] err filled'
                    | IDeclPanic m => mkResult (RPanicDecl m) [] err filled'
                    | IFuel => mkResult RFuel [] err filled'
                    end
             else None) subs in
    (* "Error: ..." + PrintHelp + onError(err); return err *)
    let reject (e : errclass) (line : str) : result :=
        let (text, interrupted) := print_help path c i false in
        mkResult (match interrupted with
                  | Some r => r
                  | None => match on_error policy (Some e) with
                            | Some r => r
                            | None => RRet (Some e)
                            end
                  end) [] (err ++ [line] ++ text) filled in
    match help_index args with
    | Some hi =>
      if hi <=? nargs then
        let (text, interrupted) := print_help path c i true in
        mkResult (match interrupted with Some r => r | None => on_help policy end)
                 [] (err ++ text) filled
      else
        match skipn nargs args with
        | arg :: rest =>
          match descend arg rest levels paths filled with
          | Some r => r
          | None => mkResult RFuel [] err filled      (* "impossible case" *)
          end
        | [] => mkResult RFuel [] err filled
        end
    | None =>
      match fsm_parse i (firstn nargs args) with
      | PFuelOut => mkResult RFuel [] err filled
      | PUsage => reject EUsage s_err_usage
      | PConv => reject EConv s_err_conv
      | PAccept opts' args' =>
        let levels' := levels ++ [mkLevel (c_before c) (c_after c)] in
        let paths' := paths ++ [path] in
        let filled' := filled ++ [(path, opts', args')] in
        match skipn nargs args with
        | [] =>
          match c_action c with
          | HAbsent =>
            let (text, interrupted) := print_help path c i false in
            mkResult (match interrupted with
                      | Some r => r
                      | None => match on_error policy None with
                                | Some r => r
                                | None => RRet None
                                end
                      end) [] (err ++ text) filled'
          | act =>
            let (tr, o) := run_flow levels' act in
            mkResult (outcome_of_flow o) (trace_of paths' tr) err filled'
          end
        | arg :: rest =>
          match descend arg rest levels' paths' filled' with
          | Some r => r
          | None => mkResult RFuel [] err filled'     (* dead tail of Cmd.parse *)
          end
        end
      end
    end.

  (** * Cli *)

  Record cliapp := mkAppAt {
    a_root : cmd;
    a_version : option (str * str);     (* Version(name, version) *)
    a_version_last : bool               (* Version called after the other declarations of the app *)
  }.
  Definition mkApp (r : cmd) (v : option (str * str)) : cliapp := mkAppAt r v false.

  Definition version_decl (name : str) : decl :=
    mkDecl true KBool name (lit "Show the version and exit") [] true (VBool false) false.

  (** the root's declarations: the version flag is an ordinary option declared where Version is called,
      before or after the other declarations *)
  Definition root_decls (a : cliapp) : list decl :=
    match a_version a with
    | Some (n, _) => if a_version_last a then c_decls (a_root a) ++ [version_decl n]
                     else version_decl n :: c_decls (a_root a)
    | None => c_decls (a_root a)
    end.

  (** Cli.Run(args) with args[0] dropped *)
  Definition run (a : cliapp) (argv : list str) : result :=
    let c := a_root a in
    let policy := effective_policy 1 c in     (* App() starts with ExitOnError *)
    match do_init (root_decls a) (c_spec c) with
    | ISpecErr m p => mkResult (RPanicSpec m p) [] [] []
    | IDeclPanic m => mkResult (RPanicDecl m) [] [] []
    | IFuel => mkResult RFuel [] [] []
    | IOk i =>
      let version_requested :=
          match a_version a, argv with
          | Some (n, _), a0 :: _ => mem_str a0 (mk_opt_strs n)
          | _, _ => false
          end in
      match a_version a with
      | Some (_, text) =>
        if version_requested then mkResult (on_help policy) [] [text] []
        else parse_cmd c i policy [c_name true c] argv [] [] [] []
      | None => parse_cmd c i policy [c_name true c] argv [] [] [] []
      end
    end.
End WithEnv.
