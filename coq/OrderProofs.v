(** C20, fillContainers and the order in which it visits the containers. The library keeps the parsed values in a Go
    map from containers to strings; until the repair D11 it ranged over that map (a random order), since then it
    visits the containers in the order of their names. [visit] models a pass in ANY order: a list of indices, each
    container being replaced by its filled version when its turn comes, the first failing Set aborting the pass.
    [fill_any_order]: whatever the order — provided no container is visited twice and every container that has
    bindings is visited — the pass returns what the model's declaration-order pass [Cmd.fill] returns: the same
    containers on success, a failure when any container fails. That is what entitles the model to use one fixed
    order, before and after the repair, FOR CONTAINERS THAT DO NOT SHARE A DESTINATION (the model has none that do;
    for those the order is observable, which is the defect D11, and the harness compares rebuilt runs). *)
From MowCli Require Import Base Nfa Matchers Apply Values Cmd.

Section Visit.
  Variable A : Type.
  Variable f : nat -> A -> option A.      (* what filling does to the container at index k *)

  Fixpoint visit (cs : list A) (order : list nat) : option (list A) :=
    match order with
    | [] => Some cs
    | k :: rest =>
      match nth_error cs k with
      | None => visit cs rest
      | Some c => match f k c with
                  | Some c' => visit (set_nth k c' cs) rest
                  | None => None
                  end
      end
    end.

  Fixpoint fill_seq (cs : list A) (i : nat) : option (list A) :=
    match cs with
    | [] => Some []
    | c :: cs' => match f i c with
                  | Some c' => option_map (cons c') (fill_seq cs' (S i))
                  | None => None
                  end
    end.

  Lemma nth_error_set_nth_eq (l : list A) : forall i x y,
    nth_error l i = Some y -> nth_error (set_nth i x l) i = Some x.
  Proof. induction l as [|a l IH]; intros [|i] x y; cbn; try discriminate; eauto. Qed.

  Lemma nth_error_set_nth_neq (l : list A) : forall i j x,
    i <> j -> nth_error (set_nth i x l) j = nth_error l j.
  Proof.
    induction l as [|a l IH]; intros [|i] [|j] x Hne; cbn; try reflexivity; try congruence.
    apply IH. congruence.
  Qed.

  Lemma set_nth_len (l : list A) : forall i x, length (set_nth i x l) = length l.
  Proof. induction l as [|a l IH]; intros [|i] x; cbn; auto. Qed.

  (** what a pass leaves, container by container *)
  Lemma visit_spec order : forall cs, NoDup order ->
    match visit cs order with
    | Some cs' => length cs' = length cs /\
                  forall k c, nth_error cs k = Some c ->
                    exists c', nth_error cs' k = Some c' /\ (In k order -> f k c = Some c') /\ (~ In k order -> c' = c)
    | None => exists k c, In k order /\ nth_error cs k = Some c /\ f k c = None
    end.
  Proof.
    induction order as [|k rest IH]; intros cs Hnd; cbn [visit].
    - split; [reflexivity|]. intros k c Hk. exists c. repeat split; [assumption | intros []].
    - inversion Hnd as [|k0 r0 Hnot Hnd']; subst.
      destruct (nth_error cs k) as [c|] eqn:Hk.
      + destruct (f k c) as [c'|] eqn:Hf.
        * specialize (IH (set_nth k c' cs) Hnd').
          destruct (visit (set_nth k c' cs) rest) as [cs'|].
          -- destruct IH as [Hl IH]. split; [now rewrite Hl, set_nth_len|].
             intros j cj Hj. destruct (Nat.eq_dec k j) as [<-|Hne].
             ++ rewrite Hk in Hj. injection Hj as <-.
                destruct (IH k c' (nth_error_set_nth_eq cs k c' c Hk)) as (c2 & Hn & _ & Hout).
                rewrite (Hout Hnot) in Hn. exists c'. repeat split; [assumption | | intros X; exfalso; apply X; now left].
                intros _. exact Hf.
             ++ destruct (IH j cj) as (c2 & Hn & Hin & Hout); [now rewrite nth_error_set_nth_neq|].
                exists c2. repeat split; [assumption | |].
                ** intros [X|X]; [congruence | now apply Hin].
                ** intros X. apply Hout. intros Y. apply X. now right.
          -- destruct IH as (j & cj & Hin & Hj & Hfj). exists j, cj. split; [now right|].
             assert (Hne : k <> j) by (intros ->; contradiction).
             rewrite nth_error_set_nth_neq in Hj by assumption. auto.
        * exists k, c. split; [now left | auto].
      + specialize (IH cs Hnd'). destruct (visit cs rest) as [cs'|].
        * destruct IH as [Hl IH]. split; [assumption|]. intros j cj Hj.
          destruct (IH j cj Hj) as (c2 & Hn & Hin & Hout). exists c2. repeat split; [assumption | |].
          -- intros [X|X]; [subst; congruence | now apply Hin].
          -- intros X. apply Hout. intros Y. apply X. now right.
        * destruct IH as (j & cj & Hin & Hj & Hfj). exists j, cj. split; [now right | auto].
  Qed.

  Lemma fill_seq_spec cs : forall i,
    match fill_seq cs i with
    | Some cs' => length cs' = length cs /\
                  forall k c, nth_error cs k = Some c -> exists c', nth_error cs' k = Some c' /\ f (i + k) c = Some c'
    | None => exists k c, nth_error cs k = Some c /\ f (i + k) c = None
    end.
  Proof.
    induction cs as [|c cs IH]; intros i; cbn [fill_seq].
    - split; [reflexivity|]. intros k c Hk. destruct k; discriminate.
    - destruct (f i c) as [c1|] eqn:H1.
      + specialize (IH (S i)). destruct (fill_seq cs (S i)) as [cs1|]; cbn [option_map].
        * destruct IH as [Hl IH]. split; [cbn; now rewrite Hl|]. intros k c0 Hk. destruct k as [|k]; cbn in Hk.
          -- injection Hk as <-. exists c1. rewrite Nat.add_0_r. auto.
          -- destruct (IH k c0 Hk) as (c' & Hn & Hf). exists c'. split; [assumption|].
             now replace (i + S k) with (S i + k) by lia.
        * destruct IH as (k & c0 & Hk & Hf). exists (S k), c0. split; [assumption|].
          now replace (i + S k) with (S i + k) by lia.
      + exists 0, c. rewrite Nat.add_0_r. auto.
  Qed.

  Lemma nth_error_eq_lists (l1 : list A) : forall l2, length l1 = length l2 ->
    (forall k, nth_error l1 k = nth_error l2 k) -> l1 = l2.
  Proof.
    induction l1 as [|a l1 IH]; intros [|b l2] Hl H; try discriminate; [reflexivity|].
    pose proof (H 0) as H0. cbn in H0. injection H0 as <-. f_equal.
    apply IH; [now injection Hl | intros k; exact (H (S k))].
  Qed.

  (** every order that visits each container at most once and leaves out only containers that filling leaves as they
      are gives the result of the pass in list order *)
  Theorem visit_any_order cs order :
    NoDup order ->
    (forall k c, nth_error cs k = Some c -> ~ In k order -> f k c = Some c) ->
    visit cs order = fill_seq cs 0.
  Proof.
    intros Hnd Hout. pose proof (visit_spec order cs Hnd) as V. pose proof (fill_seq_spec cs 0) as S.
    destruct (visit cs order) as [c1|], (fill_seq cs 0) as [c2|].
    - destruct V as [L1 V], S as [L2 S]. f_equal. apply nth_error_eq_lists; [congruence|].
      intros k. destruct (nth_error cs k) as [c|] eqn:Hk.
      + destruct (V k c Hk) as (x1 & N1 & Hin & Hnot). destruct (S k c Hk) as (x2 & N2 & F2). cbn in F2.
        rewrite N1, N2. f_equal. destruct (in_dec Nat.eq_dec k order) as [I|I].
        * rewrite (Hin I) in F2. now injection F2.
        * rewrite (Hnot I). rewrite (Hout k c Hk I) in F2. now injection F2.
      + apply nth_error_None in Hk.
        rewrite (proj2 (nth_error_None c1 k)), (proj2 (nth_error_None c2 k)); [reflexivity | lia | lia].
    - exfalso. destruct V as [L1 V], S as (k & c & Hk & F). cbn in F.
      destruct (V k c Hk) as (x1 & N1 & Hin & Hnot). destruct (in_dec Nat.eq_dec k order) as [I|I].
      + rewrite (Hin I) in F. discriminate.
      + rewrite (Hout k c Hk I) in F. discriminate.
    - exfalso. destruct V as (k & c & I & Hk & F), S as [L2 S]. destruct (S k c Hk) as (x2 & N2 & F2). cbn in F2. congruence.
    - reflexivity.
  Qed.
End Visit.

(** * fillContainers *)
Section FillOrder.
  Variable parse_float : str -> option str.

  Definition fill_at (mk : nat -> key) (bs : list binding) (k : nat) (c : container) : option container :=
    fill_one parse_float c (values_for (mk k) bs).

  (** fillContainers visiting the containers in [order] *)
  Definition fill_visit (cs : list container) (order : list nat) (mk : nat -> key) (bs : list binding) :=
    visit container (fill_at mk bs) cs order.

  Lemma fill_is_fill_seq mk bs cs : forall i, fill parse_float cs i mk bs = fill_seq container (fill_at mk bs) cs i.
  Proof.
    induction cs as [|c cs IH]; intros i; cbn [fill fill_seq]; [reflexivity|].
    unfold fill_at at 1. destruct (fill_one parse_float c (values_for (mk i) bs)); [|reflexivity]. now rewrite IH.
  Qed.

  (** the Go map holds the containers that were bound at least one string: every one of them is visited, once *)
  Theorem fill_any_order cs order mk bs :
    NoDup order ->
    (forall k, k < length cs -> values_for (mk k) bs <> [] -> In k order) ->
    fill_visit cs order mk bs = fill parse_float cs 0 mk bs.
  Proof.
    intros Hnd Hall. rewrite fill_is_fill_seq. apply visit_any_order; [assumption|].
    intros k c Hk Hnot. unfold fill_at, fill_one.
    destruct (values_for (mk k) bs) as [|v vs] eqn:E; [reflexivity|].
    exfalso. apply Hnot, Hall; [apply nth_error_Some; congruence | rewrite E; discriminate].
  Qed.

  (** two passes in two orders agree *)
  Corollary fill_two_orders cs o1 o2 mk bs :
    NoDup o1 -> NoDup o2 ->
    (forall k, k < length cs -> values_for (mk k) bs <> [] -> In k o1) ->
    (forall k, k < length cs -> values_for (mk k) bs <> [] -> In k o2) ->
    fill_visit cs o1 mk bs = fill_visit cs o2 mk bs.
  Proof. intros. now rewrite !fill_any_order. Qed.

  (** fsm.Parse with the two passes in arbitrary orders, which may depend on what was bound (the keys of the map) *)
  Definition fsm_parse_visiting (oo oa : list binding -> list nat) (i : inited) (argv : list str) : parse_res :=
    match fsm_apply (optinfo_of (i_opts i)) (i_graph i) (i_start i) argv with
    | AFuel => PFuelOut
    | AFail => PUsage
    | AOk bs =>
      match fill_visit (i_opts i) (oo bs) KO bs with
      | None => PConv
      | Some opts' =>
        match fill_visit (i_args i) (oa bs) KA bs with
        | None => PConv
        | Some args' => PAccept opts' args'
        end
      end
    end.

  (** an order of visit: no container twice, every container that was bound something *)
  Definition covers (cs : list container) (mk : nat -> key) (order : list binding -> list nat) : Prop :=
    forall bs, NoDup (order bs) /\ forall k, k < length cs -> values_for (mk k) bs <> [] -> In k (order bs).

  Theorem fsm_parse_any_order oo oa i argv :
    covers (i_opts i) KO oo -> covers (i_args i) KA oa ->
    fsm_parse_visiting oo oa i argv = fsm_parse parse_float i argv.
  Proof.
    intros C1 C2. unfold fsm_parse_visiting, fsm_parse.
    destruct (fsm_apply _ _ _ argv) as [bs| |]; try reflexivity.
    destruct (C1 bs) as [N1 A1], (C2 bs) as [N2 A2].
    rewrite (fill_any_order (i_opts i) (oo bs) KO bs N1 A1), (fill_any_order (i_args i) (oa bs) KA bs N2 A2). reflexivity.
  Qed.
End FillOrder.
