(** T1, first half: the automaton built by the Thompson-style construction of parser.go has
    exactly the accepting runs of the spec read as a regular expression over matcher steps. *)
From MowCli Require Import Base Lexer Parser Nfa Matchers Apply ApplyProofs TermProofs NfaProofs PrepareProofs.

Section Den.
  Variable D : optinfo.
  Variable nopts : nat.

  Definition cfg := (list str * bool)%type.

  (** one matcher step: the leading "--" is dropped first, as on entering a state *)
  Definition mstep (l : label) (c c' : cfg) (b : list binding) : Prop :=
    run_matcher D l (fst (strip (fst c) (snd c))) (snd (strip (fst c) (snd c))) = Some (fst c', snd c', b).

  (** the spec as a regular expression over matcher steps: juxtaposition is concatenation, | is
      choice, [..] is optional, ... is one-or-more *)
  Inductive DS : seq -> cfg -> cfg -> list binding -> Prop :=
  | DSNil c : DS SNil c c []
  | DSCons ch s c c1 c2 b1 b2 : DC ch c c1 b1 -> DS s c1 c2 b2 -> DS (SCons ch s) c c2 (b1 ++ b2)
  with DC : choice -> cfg -> cfg -> list binding -> Prop :=
  | DCOne a c c' b : DR a c c' b -> DC (COne a) c c' b
  | DCAltL a ch c c' b : DR a c c' b -> DC (CAlt a ch) c c' b
  | DCAltR a ch c c' b : DC ch c c' b -> DC (CAlt a ch) c c' b
  with DR : ratom -> cfg -> cfg -> list binding -> Prop :=
  | DROnce a rep c c' b : DA a c c' b -> DR (RAtom a rep) c c' b
  | DRMore a c c1 c2 b1 b2 : DA a c c1 b1 -> DR (RAtom a true) c1 c2 b2 -> DR (RAtom a true) c c2 (b1 ++ b2)
  with DA : atom -> cfg -> cfg -> list binding -> Prop :=
  | DAArg i c c' b : mstep (LArg i) c c' b -> DA (AArg i) c c' b
  | DAOptions c c' b : mstep (LGrp (List.seq 0 nopts)) c c' b -> DA AOptions c c' b
  | DAOpt i c c' b : mstep (LOpt i) c c' b -> DA (AOpt i) c c' b
  | DAGroup js c c' b : mstep (LGrp js) c c' b -> DA (AGroup js) c c' b
  | DADD c c' b : mstep LDD c c' b -> DA ADD c c' b
  | DAPar s c c' b : DS s c c' b -> DA (APar s) c c' b
  | DASqSome s c c' b : DS s c c' b -> DA (ASq s) c c' b
  | DASqNone s c : DA (ASq s) c c [].

  Scheme DS_mut := Induction for DS Sort Prop
  with DC_mut := Induction for DC Sort Prop
  with DR_mut := Induction for DR Sort Prop
  with DA_mut := Induction for DA Sort Prop.
  Combined Scheme den_mutind from DS_mut, DC_mut, DR_mut, DA_mut.

  (** a command line is a sentence of the expression: some reading of it consumes everything *)
  Definition Accepts (e : seq) (c : cfg) (bs : list binding) : Prop :=
    exists c', DS e c c' bs /\ fst (strip (fst c') (snd c')) = [].

  Definition sc (c : cfg) : cfg := strip (fst c) (snd c).

  Lemma sc_idem c : sc (sc c) = sc c.
  Proof. unfold sc. destruct c as [a r]. cbn [fst snd]. apply strip_idem. Qed.

  Lemma mstep_sc l c c' b : mstep l (sc c) c' b <-> mstep l c c' b.
  Proof. unfold mstep, sc. now rewrite strip_idem. Qed.

  (** the denotation only looks at the stripped input; its output is the same up to stripping *)
  Lemma den_sc_in :
    (forall s c c' b, DS s c c' b -> forall c0, sc c0 = sc c -> exists c'', DS s c0 c'' b /\ sc c'' = sc c') /\
    (forall ch c c' b, DC ch c c' b -> forall c0, sc c0 = sc c -> exists c'', DC ch c0 c'' b /\ sc c'' = sc c') /\
    (forall a c c' b, DR a c c' b -> forall c0, sc c0 = sc c -> exists c'', DR a c0 c'' b /\ sc c'' = sc c') /\
    (forall a c c' b, DA a c c' b -> forall c0, sc c0 = sc c -> exists c'', DA a c0 c'' b /\ sc c'' = sc c').
  Proof.
    assert (Hm : forall l c c' b c0, mstep l c c' b -> sc c0 = sc c -> mstep l c0 c' b).
    { intros l c c' b c0 H E. apply mstep_sc. rewrite E. now apply mstep_sc. }
    apply den_mutind.
    - intros c c0 E. exists c0. split; [constructor | assumption].
    - intros ch s c c1 c2 b1 b2 _ IH1 _ IH2 c0 E.
      destruct (IH1 c0 E) as (c1' & H1 & E1). destruct (IH2 c1' E1) as (c2' & H2 & E2).
      exists c2'. split; [econstructor; eauto | assumption].
    - intros a c c' b _ IH c0 E. destruct (IH c0 E) as (c'' & H & E'). exists c''. split; [now constructor | assumption].
    - intros a ch c c' b _ IH c0 E. destruct (IH c0 E) as (c'' & H & E'). exists c''. split; [now apply DCAltL | assumption].
    - intros a ch c c' b _ IH c0 E. destruct (IH c0 E) as (c'' & H & E'). exists c''. split; [now apply DCAltR | assumption].
    - intros a rep c c' b _ IH c0 E. destruct (IH c0 E) as (c'' & H & E'). exists c''. split; [now apply DROnce | assumption].
    - intros a c c1 c2 b1 b2 _ IH1 _ IH2 c0 E.
      destruct (IH1 c0 E) as (c1' & H1 & E1). destruct (IH2 c1' E1) as (c2' & H2 & E2).
      exists c2'. split; [eapply DRMore; eauto | assumption].
    - intros i c c' b H c0 E. exists c'. split; [constructor; eapply Hm; eauto | reflexivity].
    - intros c c' b H c0 E. exists c'. split; [constructor; eapply Hm; eauto | reflexivity].
    - intros i c c' b H c0 E. exists c'. split; [constructor; eapply Hm; eauto | reflexivity].
    - intros js c c' b H c0 E. exists c'. split; [constructor; eapply Hm; eauto | reflexivity].
    - intros c c' b H c0 E. exists c'. split; [constructor; eapply Hm; eauto | reflexivity].
    - intros s c c' b _ IH c0 E. destruct (IH c0 E) as (c'' & H & E'). exists c''. split; [now constructor | assumption].
    - intros s c c' b _ IH c0 E. destruct (IH c0 E) as (c'' & H & E'). exists c''. split; [now apply DASqSome | assumption].
    - intros s c c0 E. exists c0. split; [apply DASqNone | assumption].
  Qed.

  (** * Runs with a bound on their length *)
  Inductive AccH (g : graph) : nat -> nat -> list str -> bool -> list binding -> Prop :=
  | AHEnd n s args ro :
      fst (strip args ro) = [] -> terminal g s = true -> AccH g (S n) s args ro []
  | AHStep n s args ro l t rem ro' bs bs' :
      In (l, t) (edges g s) ->
      run_matcher D l (fst (strip args ro)) (snd (strip args ro)) = Some (rem, ro', bs) ->
      AccH g n t rem ro' bs' ->
      AccH g (S n) s args ro (bs ++ bs').

  Lemma acch_mono g n s a r b : AccH g n s a r b -> forall m, n <= m -> AccH g m s a r b.
  Proof.
    induction 1 as [n s a r He Ht | n s a r l t rem ro' bs bs' Hedge Hrun Hrest IH]; intros m Hm;
      (destruct m as [|m]; [lia|]).
    - now apply AHEnd.
    - eapply AHStep; eauto. apply IH. lia.
  Qed.

  Lemma acch_acc g n s a r b : AccH g n s a r b -> Acc D g s a r b.
  Proof. induction 1; [now apply AccEnd | eapply AccStep; eauto]. Qed.

  Lemma acc_acch g s a r b : Acc D g s a r b -> exists n, AccH g n s a r b.
  Proof.
    induction 1 as [s a r He Ht | s a r l t rem ro' bs bs' Hedge Hrun Hrest [n IH]].
    - exists 1. now apply AHEnd.
    - exists (S n). eapply AHStep; eauto.
  Qed.

  (** like Acc, a bounded run only looks at the stripped configuration *)
  Lemma acch_sc g n s c c0 b :
    sc c0 = sc c -> AccH g n s (fst c) (snd c) b -> AccH g n s (fst c0) (snd c0) b.
  Proof.
    unfold sc. intros E H.
    inversion H as [n0 s0 a0 r0 He Ht | n0 s0 a0 r0 l t rem ro' bs bs' Hedge Hrun Hrest]; subst.
    - apply AHEnd; [now rewrite E | assumption].
    - eapply AHStep; [exact Hedge | rewrite E; exact Hrun | exact Hrest].
  Qed.
End Den.

(** * Footprint of the construction: which states a builder may touch *)
Definition allfalse (g : graph) : Prop := forall x, terminal g x = false.

Lemma allfalse_new g : allfalse g -> allfalse (snd (new_state g)).
Proof.
  intros H x. unfold new_state, terminal. cbn [snd g_term]. unfold terminal in H.
  destruct (Nat.lt_ge_cases x (length (g_term g))) as [Hl|Hl].
  - rewrite app_nth1 by assumption. apply H.
  - rewrite app_nth2 by assumption. destruct (x - length (g_term g)) as [|[|k]]; reflexivity.
Qed.

Lemma allfalse_add_edge g s l t : allfalse g -> allfalse (add_edge g s l t).
Proof. intros H x. apply H. Qed.

Lemma edges_add_edge_other g s l t x : x <> s -> edges (add_edge g s l t) x = edges g x.
Proof. intros H. unfold add_edge. rewrite edges_set_edges. destruct (Nat.eqb_spec s x); [congruence | reflexivity]. Qed.

Lemma edges_add_edge_same g s l t : s < nstates g -> edges (add_edge g s l t) s = edges g s ++ [(l, t)].
Proof. intros H. unfold add_edge. rewrite edges_set_edges, Nat.eqb_refl. apply Nat.ltb_lt in H. now rewrite H. Qed.

Lemma edges_fresh g : edges g (nstates g) = [].
Proof. unfold edges, nstates. apply nth_overflow. lia. Qed.

Lemma edges_beyond g x : nstates g <= x -> edges g x = [].
Proof. intros H. unfold edges, nstates in *. now apply nth_overflow. Qed.

Lemma fold_add_footprint es : forall g end_,
  end_ < nstates g ->
  let g' := fold_left (fun g' (e : edge) => add_edge g' end_ (fst e) (snd e)) es g in
  nstates g' = nstates g /\ (forall x, x <> end_ -> edges g' x = edges g x) /\
  edges g' end_ = edges g end_ ++ es /\ (allfalse g -> allfalse g').
Proof.
  induction es as [|[l t] es IH]; intros g end_ He; cbn [fold_left].
  - repeat split; auto. now rewrite app_nil_r.
  - cbn [fst snd]. destruct (IH (add_edge g end_ l t) end_) as (H1 & H2 & H3 & H4); [now rewrite nstates_add_edge|].
    repeat split.
    + now rewrite H1, nstates_add_edge.
    + intros x Hx. rewrite H2 by assumption. now apply edges_add_edge_other.
    + rewrite H3, edges_add_edge_same by assumption. now rewrite <- app_assoc.
    + intros Ha. apply H4. now apply allfalse_add_edge.
Qed.

Section Footprint.
  Variable nopts : nat.

  (** result of an atom builder: entry and exit are new, distinct from every old state *)
  Definition frag_fp (g : graph) (r : nat * nat * graph) : Prop :=
    let s := fst (fst r) in let e := snd (fst r) in let g1 := snd r in
    nstates g <= s /\ s < nstates g1 /\ nstates g <= e /\ e < nstates g1 /\
    (forall x, x < nstates g -> edges g1 x = edges g x) /\
    (allfalse g -> allfalse g1).

  Lemma new2 g : forall st g0 e g1,
    new_state g = (st, g0) -> new_state g0 = (e, g1) ->
    st = nstates g /\ e = S (nstates g) /\ nstates g0 = S (nstates g) /\ nstates g1 = S (S (nstates g)) /\
    (forall x, edges g1 x = edges g x) /\ (allfalse g -> allfalse g1).
  Proof.
    intros st g0 e g1 E0 E1.
    pose proof (nstates_new g) as [N0 F0]. rewrite E0 in N0, F0. cbn [fst snd] in N0, F0.
    pose proof (nstates_new g0) as [N1 F1]. rewrite E1 in N1, F1. cbn [fst snd] in N1, F1.
    repeat split; try lia.
    - intros x. pose proof (edges_new g0 x) as X1. rewrite E1 in X1. cbn [snd] in X1. rewrite X1.
      pose proof (edges_new g x) as X0. rewrite E0 in X0. cbn [snd] in X0. exact X0.
    - intros Ha. pose proof (allfalse_new g0) as X. rewrite E1 in X. apply X.
      pose proof (allfalse_new g Ha) as Y. now rewrite E0 in Y.
  Qed.

  Theorem thompson_footprint :
    (forall s, forall end_ g, end_ < nstates g ->
       let r := th_seq nopts s end_ g in
       nstates g <= nstates (snd r) /\
       (fst r = end_ \/ (nstates g <= fst r /\ fst r < nstates (snd r))) /\
       (forall x, x < nstates g -> x <> end_ -> edges (snd r) x = edges g x) /\
       (allfalse g -> allfalse (snd r))) /\
    (forall c, forall start end_ g, start < nstates g -> end_ < nstates g ->
       let g1 := th_alts nopts c start end_ g in
       nstates g <= nstates g1 /\
       (forall x, x < nstates g -> x <> start -> edges g1 x = edges g x) /\
       (allfalse g -> allfalse g1)) /\
    (forall a, forall g, frag_fp g (th_ratom nopts a g)) /\
    (forall a, forall g, frag_fp g (th_atom nopts a g)).
  Proof.
    assert (Hleaf : forall g l,
      frag_fp g (let '(start, g0) := new_state g in let '(e, g1) := new_state g0 in (start, e, add_edge g1 start l e))).
    { intros g l. destruct (new_state g) as [st g0] eqn:E0. destruct (new_state g0) as [e g1] eqn:E1.
      destruct (new2 g _ _ _ _ E0 E1) as (-> & -> & N0 & N1 & He & Ha).
      unfold frag_fp. cbn [fst snd]. rewrite nstates_add_edge. repeat split; try lia.
      - intros x Hx. rewrite edges_add_edge_other by lia. apply He.
      - intros H. now apply allfalse_add_edge, Ha. }
    apply ast_mutind.
    - intros end_ g He. cbn. auto.
    - intros c IHc s IHs end_ g He. rewrite th_seq_cons.
      destruct (new_state g) as [cs g0] eqn:E0. destruct (new_state g0) as [ce g0'] eqn:E1.
      destruct (new2 g _ _ _ _ E0 E1) as (-> & -> & N0 & N1 & Hed & Haf).
      cbv zeta.
      destruct (IHc (nstates g) (S (nstates g)) g0') as (A1 & A2 & A3); [lia | lia |].
      set (g1 := th_alts nopts c (nstates g) (S (nstates g)) g0') in *.
      destruct (fold_add_footprint (edges g1 (nstates g)) g1 end_) as (B1 & B2 & B3 & B4); [lia|].
      set (g2 := fold_left _ (edges g1 (nstates g)) g1) in *.
      destruct (IHs (S (nstates g)) g2) as (C1 & C2 & C3 & C4); [lia|].
      repeat split.
      + lia.
      + right. destruct C2 as [->|[C2a C2b]]; lia.
      + intros x Hx Hne. rewrite C3 by lia. rewrite B2 by assumption. rewrite A2 by lia. apply Hed.
      + intros Ha. apply C4, B4, A3, Haf, Ha.
    - intros a IHa start end_ g Hs He. rewrite th_alts_one.
      specialize (IHa g). unfold frag_fp in IHa.
      destruct (th_ratom nopts a g) as [[s e] g1]. cbn [fst snd] in IHa.
      destruct IHa as (S1 & S2 & E1 & E2 & Hed & Haf).
      cbv zeta. rewrite !nstates_add_edge. repeat split.
      + lia.
      + intros x Hx Hne. rewrite edges_add_edge_other by lia. rewrite edges_add_edge_other by congruence. now apply Hed.
      + intros Ha. now apply allfalse_add_edge, allfalse_add_edge, Haf.
    - intros a IHa c IHc start end_ g Hs He. rewrite th_alts_alt.
      specialize (IHa g). unfold frag_fp in IHa.
      destruct (th_ratom nopts a g) as [[s e] g1]. cbn [fst snd] in IHa.
      destruct IHa as (S1 & S2 & E1 & E2 & Hed & Haf).
      destruct (IHc start end_ (add_edge (add_edge g1 start LEps s) e LEps end_)) as (A1 & A2 & A3);
        [rewrite !nstates_add_edge; lia | rewrite !nstates_add_edge; lia |].
      rewrite !nstates_add_edge in *. cbv zeta. repeat split.
      + lia.
      + intros x Hx Hne. rewrite A2 by lia. rewrite edges_add_edge_other by lia.
        rewrite edges_add_edge_other by congruence. now apply Hed.
      + intros Ha. apply A3. now apply allfalse_add_edge, allfalse_add_edge, Haf.
    - intros a IHa rep g. rewrite th_ratom_eq. specialize (IHa g). unfold frag_fp in *.
      destruct (th_atom nopts a g) as [[s e] g1]. cbn [fst snd] in *.
      destruct IHa as (S1 & S2 & E1 & E2 & Hed & Haf).
      destruct rep; [rewrite nstates_add_edge|]; repeat split; auto.
      all: try (intros x Hx; rewrite edges_add_edge_other by lia; now apply Hed).
      all: try (intros Ha; now apply allfalse_add_edge, Haf).
    - intros i g. apply Hleaf.
    - intros g. apply Hleaf.
    - intros i g. apply Hleaf.
    - intros js g. apply Hleaf.
    - intros g. apply Hleaf.
    - intros s IHs g. rewrite th_atom_par.
      destruct (new_state g) as [st g0] eqn:E0. destruct (new_state g0) as [ss g1] eqn:E1.
      destruct (new2 g _ _ _ _ E0 E1) as (-> & -> & N0 & N1 & Hed & Haf).
      destruct (IHs (S (nstates g)) g1) as (C1 & C2 & C3 & C4); [lia|].
      destruct (th_seq nopts s (S (nstates g)) g1) as [se g2]. cbn [fst snd] in *.
      unfold frag_fp. cbn [fst snd]. repeat split; try lia.
      + intros x Hx. rewrite C3 by lia. apply Hed.
      + intros Ha. apply C4, Haf, Ha.
    - intros s IHs g. rewrite th_atom_sq.
      destruct (new_state g) as [st g0] eqn:E0. destruct (new_state g0) as [ss g1] eqn:E1.
      destruct (new2 g _ _ _ _ E0 E1) as (-> & -> & N0 & N1 & Hed & Haf).
      destruct (IHs (S (nstates g)) g1) as (C1 & C2 & C3 & C4); [lia|].
      destruct (th_seq nopts s (S (nstates g)) g1) as [se g2]. cbn [fst snd] in *.
      unfold frag_fp. cbn [fst snd]. rewrite nstates_add_edge. repeat split; try lia.
      + intros x Hx. rewrite edges_add_edge_other by lia. rewrite C3 by lia. apply Hed.
      + intros Ha. apply allfalse_add_edge, C4, Haf, Ha.
  Qed.
End Footprint.

(** * Fragments *)
Section Frag.
  Variable D : optinfo.
  Variable nopts : nat.

  Notation AccC g s c bs := (Acc D g s (fst c) (snd c) bs).
  Notation AccHC g n s c bs := (AccH D g n s (fst c) (snd c) bs).
  Notation DS := (DS D nopts). Notation DC := (DC D nopts). Notation DR := (DR D nopts). Notation DA := (DA D nopts).
  Notation mstep := (mstep D).

  (** the final graph agrees with the graph just after a builder on the states the builder created
      (indices lo..hi-1), except the open ones *)
  Definition frozen (g1 g : graph) (lo hi : nat) (open : nat -> Prop) : Prop :=
    forall x, lo <= x -> x < hi -> ~ open x -> edges g x = edges g1 x /\ terminal g x = false.

  Lemma accc_sc g s (c c0 : cfg) bs : sc c0 = sc c -> AccC g s c bs -> AccC g s c0 bs.
  Proof.
    unfold sc. intros E H. apply acc_strip. rewrite E. now apply acc_strip.
  Qed.

  Lemma accc_eps g s t (c : cfg) bs : In (LEps, t) (edges g s) -> AccC g t c bs -> AccC g s c bs.
  Proof. intros Hin H. eapply acc_eps; eauto. Qed.

  Lemma acchc_eps g n s t (c : cfg) bs :
    In (LEps, t) (edges g s) -> AccHC g n t c bs -> AccHC g (S n) s c bs.
  Proof.
    intros Hin H. change bs with ([] ++ bs). eapply AHStep; [exact Hin | reflexivity |].
    apply (acch_sc D g n t c (sc c)); [apply sc_idem | exact H].
  Qed.

  (** a run from a non-terminal state takes one of its transitions *)
  Lemma acchc_inv g n x (c : cfg) bs :
    terminal g x = false -> AccHC g n x c bs ->
    exists l t m c1 b1 b2, n = S m /\ In (l, t) (edges g x) /\ mstep l c c1 b1 /\ AccHC g m t c1 b2 /\ bs = b1 ++ b2.
  Proof.
    intros Ht H. inversion H as [n0 s0 a0 r0 He Hterm | n0 s0 a0 r0 l t rem ro' b1 b2 Hedge Hrun Hrest]; subst.
    - congruence.
    - exists l, t, n0, (rem, ro'), b1, b2. repeat split; auto.
  Qed.

  (** following a shortcut: the run continues from the stripped configuration *)
  Lemma mstep_eps (c c1 : cfg) b : mstep LEps c c1 b -> c1 = sc c /\ b = [].
  Proof.
    unfold mstep, sc. cbn [run_matcher]. intros H. injection H as H1 H2 H3.
    split; [|now symmetry]. destruct c1 as [a1 r1]. cbn [fst snd] in *. subst a1 r1.
    now destruct (strip (fst c) (snd c)).
  Qed.

  (** the atoms that are a single transition *)
  Lemma leaf_frag (l : label) g0 :
    forall st g0' e g1, new_state g0 = (st, g0') -> new_state g0' = (e, g1) ->
    forall g, frozen (add_edge g1 st l e) g (nstates g0) (nstates (add_edge g1 st l e)) (eq e) ->
      (forall (c c' : cfg) b1 b2, mstep l c c' b1 -> AccC g e c' b2 -> AccC g st c (b1 ++ b2)) /\
      (forall n (c : cfg) bs, AccHC g n st c bs ->
         exists c' b1 b2 m, m < n /\ mstep l c c' b1 /\ AccHC g m e c' b2 /\ bs = b1 ++ b2).
  Proof.
    intros st g0' e g1 E0 E1 g Hfr.
    destruct (new2 g0 _ _ _ _ E0 E1) as (-> & -> & N0 & N1 & Hed & _).
    destruct (Hfr (nstates g0)) as [Hes Hts]; [lia | rewrite nstates_add_edge; lia | lia |].
    rewrite edges_add_edge_same in Hes by lia. rewrite Hed, edges_fresh in Hes. cbn [List.app] in Hes.
    split.
    - intros c c' b1 b2 Hm Ha. eapply AccStep; [rewrite Hes; now left | exact Hm | exact Ha].
    - intros n c bs H. destruct (acchc_inv g n _ c bs Hts H) as (l0 & t & m & c1 & b1 & b2 & -> & Hin & Hm & Hr & ->).
      rewrite Hes in Hin. destruct Hin as [[= <- <-]|[]].
      exists c1, b1, b2, m. repeat split; auto.
  Qed.

  (** * Groups are never empty (the parser guarantees it: seq(true)) *)
  Fixpoint ne_seq (s : seq) : bool :=
    match s with SNil => true | SCons c s' => ne_choice c && ne_seq s' end
  with ne_choice (c : choice) : bool :=
    match c with COne a => ne_ratom a | CAlt a c' => ne_ratom a && ne_choice c' end
  with ne_ratom (a : ratom) : bool := match a with RAtom a _ => ne_atom a end
  with ne_atom (a : atom) : bool :=
    match a with
    | APar s | ASq s => match s with SNil => false | SCons _ _ => ne_seq s end
    | _ => true
    end.

  (** the atoms made of one transition *)
  Definition leaf_of (a : atom) : option label :=
    match a with
    | AArg i => Some (LArg i) | AOptions => Some (LGrp (List.seq 0 nopts)) | AOpt i => Some (LOpt i)
    | AGroup js => Some (LGrp js) | ADD => Some LDD | APar _ | ASq _ => None
    end.

  Lemma leaf_build a l g : leaf_of a = Some l ->
    th_atom nopts a g = (let '(st, g0) := new_state g in let '(e, g1) := new_state g0 in (st, e, add_edge g1 st l e)).
  Proof. destruct a; cbn; intros [= <-]; reflexivity. Qed.

  Lemma leaf_den a l (c c' : cfg) b : leaf_of a = Some l -> (DA a c c' b <-> mstep l c c' b).
  Proof.
    destruct a; cbn; intros [= <-]; (split; [intros H; inversion H; subst; assumption | intros H; now constructor]).
  Qed.

  (** what is shown about an atom fragment (entry s, exit e) *)
  Definition atom_sem (a : atom) (g : graph) (s e : nat) : Prop :=
    (forall (c c' : cfg) b1 b2, DA a c c' b1 -> AccC g e c' b2 -> AccC g s c (b1 ++ b2)) /\
    (forall n (c : cfg) bs, AccHC g n s c bs ->
       exists (c' : cfg) b1 b2 m, m < n /\ DA a c c' b1 /\ AccHC g m e c' b2 /\ bs = b1 ++ b2).

  Definition PA (a : atom) : Prop :=
    ne_atom a = true -> forall g0, allfalse g0 ->
    let r := th_atom nopts a g0 in
    let s := fst (fst r) in let e := snd (fst r) in let g1 := snd r in
    s <> e /\ edges g1 e = [] /\
    forall g, frozen g1 g (nstates g0) (nstates g1) (eq e) -> atom_sem a g s e.

  (** a sequence fragment: the current end [end_] (a fresh state) receives shortcuts to the entries *)
  Definition PS (s : seq) : Prop :=
    ne_seq s = true -> forall g0 end_, end_ < nstates g0 -> edges g0 end_ = [] -> allfalse g0 ->
    let r := th_seq nopts s end_ g0 in
    let e' := fst r in let g1 := snd r in
    (s = SNil -> e' = end_ /\ g1 = g0) /\
    (s <> SNil -> nstates g0 <= e' /\ e' < nstates g1 /\ edges g1 e' = [] /\
                  forall l t, In (l, t) (edges g1 end_) -> l = LEps /\ nstates g0 <= t) /\
    forall g, frozen g1 g (nstates g0) (nstates g1) (eq e') -> s <> SNil ->
      (forall (c c' : cfg) b1 b2, DS s c c' b1 -> AccC g e' c' b2 ->
         exists t, In (LEps, t) (edges g1 end_) /\ AccC g t c (b1 ++ b2)) /\
      (forall t, In (LEps, t) (edges g1 end_) -> forall n (c : cfg) bs, AccHC g n t c bs ->
         exists (c' : cfg) b1 b2 m, m < n /\ DS s c c' b1 /\ AccHC g m e' c' b2 /\ bs = b1 ++ b2).

  (** a choice: [start] receives shortcuts to the entry of every alternative, whose exits lead to [end_] *)
  Definition PC (ch : choice) : Prop :=
    ne_choice ch = true -> forall g0 start end_, start < nstates g0 -> end_ < nstates g0 -> allfalse g0 ->
    let g1 := th_alts nopts ch start end_ g0 in
    exists A, edges g1 start = edges g0 start ++ A /\
              (forall l t, In (l, t) A -> l = LEps /\ nstates g0 <= t) /\
    forall g, frozen g1 g (nstates g0) (nstates g1) (fun _ => False) ->
      (forall (c c' : cfg) b1 b2, DC ch c c' b1 -> AccC g end_ c' b2 ->
         exists t, In (LEps, t) A /\ AccC g t c (b1 ++ b2)) /\
      (forall t, In (LEps, t) A -> forall n (c : cfg) bs, AccHC g n t c bs ->
         exists (c' : cfg) b1 b2 m, m < n /\ DC ch c c' b1 /\ AccHC g m end_ c' b2 /\ bs = b1 ++ b2).

  Definition PR (ra : ratom) : Prop := match ra with RAtom a _ => PA a end.

  (** one alternative (atom a, repeated or not) wired into a choice: entry s, exit e with the
      back edge (if repeated) and the shortcut to the end of the choice *)
  Lemma alt_frag a (rep : bool) g s e end_ :
    atom_sem a g s e ->
    edges g e = (if rep then [(LEps, s)] else []) ++ [(LEps, end_)] -> terminal g e = false ->
    (forall (c c' : cfg) b1 b2, DR (RAtom a rep) c c' b1 -> AccC g end_ c' b2 -> AccC g s c (b1 ++ b2)) /\
    (forall n (c : cfg) bs, AccHC g n s c bs ->
       exists (c' : cfg) b1 b2 m, m < n /\ DR (RAtom a rep) c c' b1 /\ AccHC g m end_ c' b2 /\ bs = b1 ++ b2).
  Proof.
    intros [Hback Hfwd] He Hte. split.
    - intros c c' b1 b2 Hd. remember (RAtom a rep) as ra eqn:Era. revert Era b2.
      induction Hd as [a0 rep0 c c' b Hda | a0 c c1 c2 b1' b2' Hda Hrest IH]; intros Era b2 Hend; inversion Era; subst.
      + apply (Hback c c' b b2 Hda). eapply accc_eps; [|exact Hend]. rewrite He. apply in_or_app. right. now left.
      + rewrite <- app_assoc. apply (Hback c c1 b1' (b2' ++ b2) Hda).
        eapply accc_eps; [rewrite He; now left|]. now apply IH.
    - induction n as [n IHn] using lt_wf_ind. intros c bs H.
      destruct (Hfwd n c bs H) as (c1 & b1 & b2 & m & Hm & Hda & He1 & ->).
      destruct (acchc_inv g m e c1 b2 Hte He1) as (l & t & m' & c1' & d1 & d2 & -> & Hin & Hms & Hr & ->).
      rewrite He in Hin. apply in_app_or in Hin as [Hin|[Heq|[]]].
      + (* the back edge: once more *)
        destruct rep; [|destruct Hin]. destruct Hin as [Heq|[]]. injection Heq as <- <-.
        destruct (mstep_eps c1 c1' d1 Hms) as [-> ->].
        destruct (IHn m' ltac:(lia) (sc c1) d2 Hr) as (c2 & e1 & e2 & m2 & Hm2 & Hdr & He2 & ->).
        destruct (proj1 (proj2 (proj2 (den_sc_in D nopts))) _ _ _ _ Hdr c1 (eq_sym (sc_idem c1))) as (c2' & Hdr' & Esc).
        exists c2', (b1 ++ e1), e2, m2. split; [lia|]. split; [eapply DRMore; eauto|].
        split; [|cbn [List.app]; now rewrite <- app_assoc].
        apply (acch_sc D g m2 end_ c2 c2'); [exact Esc | exact He2].
      + (* out of the alternative *)
        injection Heq as <- <-. destruct (mstep_eps c1 c1' d1 Hms) as [-> ->].
        exists c1, b1, d2, m'. split; [lia|]. split; [now apply DROnce|]. split; [|reflexivity].
        apply (acch_sc D g m' end_ (sc c1) c1); [symmetry; apply sc_idem | exact Hr].
  Qed.

  Lemma ps_nil : PS SNil.
  Proof.
    intros _ g0 end_ He Hee Haf. cbn. repeat split; auto; try congruence; intros; congruence.
  Qed.

  Lemma pa_leaf a l : leaf_of a = Some l -> PA a.
  Proof.
    intros Hl _ g0 Haf. rewrite (leaf_build a l g0 Hl).
    destruct (new_state g0) as [st ga] eqn:E0. destruct (new_state ga) as [e gb] eqn:E1.
    destruct (new2 g0 _ _ _ _ E0 E1) as (Hst & He & N0 & N1 & Hed & _).
    cbn [fst snd]. split; [lia|]. split.
    - rewrite edges_add_edge_other by lia. rewrite Hed. apply edges_beyond. lia.
    - intros g Hfr. destruct (leaf_frag l g0 st ga e gb E0 E1 g Hfr) as [H1 H2]. split.
      + intros c c' b1 b2 Hd Ha. apply (H1 c c' b1 b2); [now apply (leaf_den a l) | assumption].
      + intros n c bs H. destruct (H2 n c bs H) as (c' & b1 & b2 & m & Hm & Hs & Hr & ->).
        exists c', b1, b2, m. repeat split; auto. now apply (leaf_den a l).
  Qed.

  (** the first alternative of a choice, whatever is built after it on the same [start] *)
  Lemma first_alt a rep g0 start end_ :
    PA a -> ne_atom a = true -> start < nstates g0 -> end_ < nstates g0 -> allfalse g0 ->
    let r := th_ratom nopts (RAtom a rep) g0 in
    let s := fst (fst r) in let e := snd (fst r) in let gb := snd r in
    let gm := add_edge (add_edge gb start LEps s) e LEps end_ in
    nstates g0 <= s /\ s < nstates gm /\ nstates gm = nstates gb /\ nstates g0 <= nstates gb /\
    edges gm start = edges g0 start ++ [(LEps, s)] /\ allfalse gm /\
    (forall x, x < nstates g0 -> x <> start -> edges gm x = edges g0 x) /\
    forall g, (forall x, nstates g0 <= x -> x < nstates gm -> edges g x = edges gm x /\ terminal g x = false) ->
      (forall (c c' : cfg) b1 b2, DR (RAtom a rep) c c' b1 -> AccC g end_ c' b2 -> AccC g s c (b1 ++ b2)) /\
      (forall n (c : cfg) bs, AccHC g n s c bs ->
         exists (c' : cfg) b1 b2 m, m < n /\ DR (RAtom a rep) c c' b1 /\ AccHC g m end_ c' b2 /\ bs = b1 ++ b2).
  Proof.
    intros Hpa Hne Hs He Haf. rewrite th_ratom_eq.
    destruct (thompson_footprint nopts) as (_ & _ & _ & FPa). specialize (FPa a g0). unfold frag_fp in FPa.
    specialize (Hpa Hne g0 Haf).
    destruct (th_atom nopts a g0) as [[s e] ga] eqn:Ea. cbn [fst snd] in *.
    destruct FPa as (S1 & S2 & E1 & E2 & Hold & Hafa).
    destruct Hpa as (Hse & Hee & Hsem).
    set (gb := if rep then add_edge ga e LEps s else ga).
    assert (Nb : nstates gb = nstates ga) by (unfold gb; destruct rep; [apply nstates_add_edge | reflexivity]).
    assert (Hafb : allfalse gb) by (unfold gb; destruct rep; [apply allfalse_add_edge|]; now apply Hafa).
    assert (Hbe : edges gb e = if rep then [(LEps, s)] else []).
    { unfold gb. destruct rep; [rewrite edges_add_edge_same by lia; now rewrite Hee | exact Hee]. }
    assert (Hbo : forall x, x <> e -> edges gb x = edges ga x).
    { intros x Hx. unfold gb. destruct rep; [now apply edges_add_edge_other | reflexivity]. }
    cbv zeta. change (if rep then add_edge ga e LEps s else ga) with gb.
    set (gm := add_edge (add_edge gb start LEps s) e LEps end_).
    assert (Nm : nstates gm = nstates gb) by (unfold gm; now rewrite !nstates_add_edge).
    assert (Hme : edges gm e = (if rep then [(LEps, s)] else []) ++ [(LEps, end_)]).
    { unfold gm. rewrite edges_add_edge_same by (rewrite nstates_add_edge; lia).
      rewrite edges_add_edge_other by lia. now rewrite Hbe. }
    assert (Hmo : forall x, x <> e -> x <> start -> edges gm x = edges ga x).
    { intros x H1 H2. unfold gm. rewrite edges_add_edge_other by congruence. rewrite edges_add_edge_other by congruence. now apply Hbo. }
    split; [lia|]. split; [lia|]. split; [exact Nm|]. split; [lia|].
    split.
    { unfold gm. rewrite edges_add_edge_other by lia. rewrite edges_add_edge_same by lia.
      rewrite Hbo by lia. now rewrite Hold. }
    split; [unfold gm; now apply allfalse_add_edge, allfalse_add_edge|].
    split; [intros x Hx Hxs; rewrite Hmo by lia; now apply Hold|].
    intros g H.
    assert (Hat : atom_sem a g s e).
    { apply Hsem. intros x Hlo Hhi Hxe. destruct (H x Hlo) as [Hx1 Hx2]; [lia|].
      split; [|assumption]. rewrite Hx1. apply Hmo; [congruence | lia]. }
    destruct (H e) as [Hge Hgt]; [lia | lia |].
    rewrite Hme in Hge. exact (alt_frag a rep g s e end_ Hat Hge Hgt).
  Qed.

  Lemma pc_one ra : PR ra -> PC (COne ra).
  Proof.
    destruct ra as [a rep]. intros Hpa Hne g0 start end_ Hs He Haf. cbn [ne_choice ne_ratom] in Hne.
    rewrite th_alts_one.
    pose proof (first_alt a rep g0 start end_ Hpa Hne Hs He Haf) as F. cbv zeta in F.
    destruct (th_ratom nopts (RAtom a rep) g0) as [[s e] gb]. cbn [fst snd] in F.
    destruct F as (S1 & S2 & Nm & Nb & Hst & Hafm & Hold & Hsem).
    cbv zeta. exists [(LEps, s)]. split; [exact Hst|]. split.
    - intros l t [[= <- <-]|[]]. split; [reflexivity | lia].
    - intros g Hfr.
      destruct (Hsem g) as [Hb Hf].
      { intros x Hlo Hhi. apply (Hfr x Hlo Hhi). tauto. }
      split.
      + intros c c' b1 b2 Hd Ha. inversion Hd; subst. exists s. split; [now left|]. now apply (Hb c c' b1 b2).
      + intros t [[= <-]|[]] n c bs Hrun. destruct (Hf n c bs Hrun) as (c' & b1 & b2 & m & Hm & Hd & Hr & ->).
        exists c', b1, b2, m. repeat split; auto. now constructor.
  Qed.

  Lemma pc_alt ra ch : PR ra -> PC ch -> PC (CAlt ra ch).
  Proof.
    destruct ra as [a rep]. intros Hpa Hpc Hne g0 start end_ Hs He Haf. cbn [ne_choice ne_ratom] in Hne.
    apply andb_true_iff in Hne as [Hna Hnc].
    rewrite th_alts_alt.
    pose proof (first_alt a rep g0 start end_ Hpa Hna Hs He Haf) as F. cbv zeta in F.
    destruct (th_ratom nopts (RAtom a rep) g0) as [[s e] gb]. cbn [fst snd] in F.
    destruct F as (S1 & S2 & Nm & Nb & Hst & Hafm & Hold & Hsem).
    set (gm := add_edge (add_edge gb start LEps s) e LEps end_) in *.
    destruct (Hpc Hnc gm start end_) as (A' & HA' & HAe & Hsem'); [lia | lia | exact Hafm|].
    destruct (thompson_footprint nopts) as (_ & FPc & _ & _).
    destruct (FPc ch start end_ gm) as (F1 & F2 & F3); [lia | lia|].
    set (g1 := th_alts nopts ch start end_ gm) in *.
    cbv zeta. exists ((LEps, s) :: A'). split; [rewrite HA', Hst; now rewrite <- app_assoc|]. split.
    - intros l t [[= <- <-]|Hin]; [split; [reflexivity | lia]|]. destruct (HAe l t Hin). split; [assumption | lia].
    - intros g Hfr.
      destruct (Hsem g) as [Hb Hf].
      { intros x Hlo Hhi. destruct (Hfr x Hlo) as [Hx1 Hx2]; [lia | tauto |]. split; [|assumption].
        rewrite Hx1. apply F2; lia. }
      destruct (Hsem' g) as [Hb' Hf'].
      { intros x Hlo Hhi Hn. apply (Hfr x); [lia | assumption | tauto]. }
      split.
      + intros c c' b1 b2 Hd Ha. inversion Hd; subst.
        * exists s. split; [now left|]. now apply (Hb c c' b1 b2).
        * destruct (Hb' c c' b1 b2 H4 Ha) as (t & Hin & Ht). exists t. split; [now right | assumption].
      + intros t [[= <-]|Hin] n c bs Hrun.
        * destruct (Hf n c bs Hrun) as (c' & b1 & b2 & m & Hm & Hd & Hr & ->).
          exists c', b1, b2, m. repeat split; auto. now apply DCAltL.
        * destruct (Hf' t Hin n c bs Hrun) as (c' & b1 & b2 & m & Hm & Hd & Hr & ->).
          exists c', b1, b2, m. repeat split; auto. now apply DCAltR.
  Qed.

  Lemma ps_cons ch rest : PC ch -> PS rest -> PS (SCons ch rest).
  Proof.
    intros Hpc Hps Hne g0 end_ Hend Hee Haf. cbn [ne_seq] in Hne. apply andb_true_iff in Hne as [Hnc Hnr].
    rewrite th_seq_cons.
    destruct (new_state g0) as [cs0 ga] eqn:E0. destruct (new_state ga) as [ce0 gb] eqn:E1.
    destruct (new2 g0 _ _ _ _ E0 E1) as (-> & -> & N0 & N1 & Hed & Hafb).
    cbv zeta. set (ce := S (nstates g0)). set (cs := nstates g0).
    destruct (Hpc Hnc gb cs ce) as (A & HA & HAe & Hsemc); [unfold cs; lia | unfold ce; lia | now apply Hafb|].
    destruct (thompson_footprint nopts) as (FPs & FPc & _ & _).
    destruct (FPc ch cs ce gb) as (F1 & F2 & F3); [unfold cs; lia | unfold ce; lia|].
    set (g1 := th_alts nopts ch cs ce gb) in *.
    assert (Hcs : edges g1 cs = A).
    { rewrite HA, Hed. unfold cs. now rewrite edges_fresh. }
    destruct (fold_add_footprint (edges g1 cs) g1 end_) as (B1 & B2 & B3 & B4); [lia|].
    set (g2 := fold_left (fun g' (e : edge) => add_edge g' end_ (fst e) (snd e)) (edges g1 cs) g1) in *.
    assert (He2 : edges g2 end_ = A).
    { rewrite B3, Hcs. rewrite F2 by (unfold cs; lia). now rewrite Hed, Hee. }
    assert (Hce2 : edges g2 ce = []).
    { rewrite B2 by (unfold ce; lia). rewrite F2 by (unfold ce, cs; lia). rewrite Hed. apply edges_beyond. unfold ce. lia. }
    assert (Haf2 : allfalse g2) by (apply B4, F3, Hafb, Haf).
    destruct (FPs rest ce g2) as (G1 & G2 & G3 & G4); [unfold ce; lia|].
    specialize (Hps Hnr g2 ce ltac:(unfold ce; lia) Hce2 Haf2).
    set (r := th_seq nopts rest ce g2) in *. cbv zeta in Hps. destruct Hps as (R1 & R2 & R3).
    assert (Hend3 : edges (snd r) end_ = A) by (rewrite G3 by (unfold ce; lia); exact He2).
    split; [discriminate|]. split.
    { intros _. destruct rest as [|ch2 rest2].
      - destruct (R1 eq_refl) as [Re Rg]. rewrite Re, Rg. unfold ce. repeat split; try lia.
        + exact Hce2.
        + rewrite He2 in H. now destruct (HAe l t H).
        + rewrite He2 in H. destruct (HAe l t H). lia.
      - destruct (R2 ltac:(discriminate)) as (Q1 & Q2 & Q3 & Q4). repeat split; try lia.
        + exact Q3.
        + rewrite Hend3 in H. now destruct (HAe l t H).
        + rewrite Hend3 in H. destruct (HAe l t H). lia. }
    intros g Hfr _. rewrite Hend3.
    (* the choice fragment is frozen in the final graph *)
    assert (Hfrc : frozen g1 g (nstates gb) (nstates g1) (fun _ => False)).
    { intros x Hlo Hhi _.
      assert (Hx3 : edges (snd r) x = edges g1 x).
      { rewrite G3 by (unfold ce; lia). apply B2. lia. }
      destruct (Hfr x) as [Hx1 Hx2]; [lia | lia | |split; [now rewrite Hx1 | assumption]].
      destruct rest as [|ch2 rest2].
      - destruct (R1 eq_refl) as [Re _]. rewrite Re. unfold ce. lia.
      - destruct (R2 ltac:(discriminate)) as (Q1 & _). lia. }
    destruct (Hsemc g Hfrc) as [Hcb Hcf].
    destruct rest as [|ch2 rest2].
    - (* the last choice of the sequence *)
      destruct (R1 eq_refl) as [Re Rg]. rewrite Re in *. split.
      + intros c c' b1 b2 Hd Ha. inversion Hd as [|ch0 s0 c0 c1 c2 d1 d2 Hdc Hds]; subst.
        inversion Hds; subst. rewrite app_nil_r. exact (Hcb c c' d1 b2 Hdc Ha).
      + intros t Hin n c bs Hrun. destruct (Hcf t Hin n c bs Hrun) as (c' & b1 & b2 & m & Hm & Hd & Hr & ->).
        exists c', (b1 ++ []), b2, m. repeat split; auto; [econstructor; [exact Hd | constructor] | now rewrite app_nil_r].
    - destruct (R2 ltac:(discriminate)) as (Q1 & Q2 & Q3 & Q4).
      assert (Hfrs : frozen (snd r) g (nstates g2) (nstates (snd r)) (eq (fst r))).
      { intros x Hlo Hhi Hn. apply (Hfr x); [lia | assumption | assumption]. }
      destruct (R3 g Hfrs ltac:(discriminate)) as [Hsb Hsf].
      destruct (Hfr ce) as [Hce1 Hce2']; [unfold ce; lia | unfold ce; lia | lia |].
      split.
      + intros c c' b1 b2 Hd Ha. inversion Hd as [|ch0 s0 c0 c1 c2 d1 d2 Hdc Hds]; subst.
        destruct (Hsb c1 c' d2 b2 Hds Ha) as (t' & Hin' & Ht').
        rewrite <- app_assoc. apply (Hcb c c1 d1 (d2 ++ b2) Hdc).
        eapply accc_eps; [rewrite Hce1; exact Hin' | exact Ht'].
      + intros t Hin n c bs Hrun. destruct (Hcf t Hin n c bs Hrun) as (c1 & b1 & b2 & m & Hm & Hd & Hr & ->).
        destruct (acchc_inv g m ce c1 b2 Hce2' Hr) as (l & t' & m' & c1' & d1 & d2 & -> & Hin' & Hms & Hr' & ->).
        rewrite Hce1 in Hin'. destruct (Q4 l t' Hin') as [-> _].
        destruct (mstep_eps c1 c1' d1 Hms) as [-> ->].
        destruct (Hsf t' Hin' m' (sc c1) d2 Hr') as (c2 & e1 & e2 & m2 & Hm2 & Hds & He2' & ->).
        destruct (proj1 (den_sc_in D nopts) _ _ _ _ Hds c1 (eq_sym (sc_idem c1))) as (c2' & Hds' & Esc).
        exists c2', (b1 ++ e1), e2, m2. split; [lia|]. split; [econstructor; eauto|].
        split; [|cbn [List.app]; now rewrite <- app_assoc].
        apply (acch_sc D g m2 (fst r) c2 c2'); [exact Esc | exact He2'].
  Qed.

  (** groups: ( seq ) and [ seq ] *)
  Lemma pa_group (opt : bool) s :
    PS s -> PA (if opt then ASq s else APar s).
  Proof.
    intros Hps Hne g0 Haf.
    assert (Hsne : s <> SNil /\ ne_seq s = true).
    { destruct opt; cbn [ne_atom] in Hne; destruct s; try discriminate; split; congruence. }
    destruct Hsne as [Hsn Hns].
    assert (Hbuild : th_atom nopts (if opt then ASq s else APar s) g0 =
                     let '(st, ga) := new_state g0 in
                     let '(ss, gb) := new_state ga in
                     let '(se, g2) := th_seq nopts s ss gb in
                     (ss, se, if opt then add_edge g2 ss LEps se else g2)).
    { destruct opt; [rewrite th_atom_sq | rewrite th_atom_par]; destruct (new_state g0) as [st ga];
        destruct (new_state ga) as [ss gb]; destruct (th_seq nopts s ss gb); reflexivity. }
    rewrite Hbuild. clear Hbuild.
    destruct (new_state g0) as [st0 ga] eqn:E0. destruct (new_state ga) as [ss0 gb] eqn:E1.
    destruct (new2 g0 _ _ _ _ E0 E1) as (-> & -> & N0 & N1 & Hed & Hafb).
    set (ss := S (nstates g0)).
    assert (Hssb : edges gb ss = []) by (rewrite Hed; apply edges_beyond; unfold ss; lia).
    destruct (thompson_footprint nopts) as (FPs & _ & _ & _).
    destruct (FPs s ss gb) as (G1 & G2 & G3 & G4); [unfold ss; lia|].
    specialize (Hps Hns gb ss ltac:(unfold ss; lia) Hssb (Hafb Haf)). cbv zeta in Hps.
    destruct (th_seq nopts s ss gb) as [se g2] eqn:Es. cbn [fst snd] in *.
    destruct Hps as (_ & R2 & R3). destruct (R2 Hsn) as (Q1 & Q2 & Q3 & Q4).
    set (g3 := if opt then add_edge g2 ss LEps se else g2).
    assert (N3 : nstates g3 = nstates g2) by (unfold g3; destruct opt; [apply nstates_add_edge | reflexivity]).
    assert (Hss3 : edges g3 ss = edges g2 ss ++ (if opt then [(LEps, se)] else [])).
    { unfold g3. destruct opt; [apply edges_add_edge_same; unfold ss; lia | now rewrite app_nil_r]. }
    assert (Ho3 : forall x, x <> ss -> edges g3 x = edges g2 x).
    { intros x Hx. unfold g3. destruct opt; [now apply edges_add_edge_other | reflexivity]. }
    split; [unfold ss in *; lia|]. split; [rewrite Ho3 by (unfold ss in *; lia); exact Q3|].
    intros g Hfr.
    assert (Hfrs : frozen g2 g (nstates gb) (nstates g2) (eq se)).
    { intros x Hlo Hhi Hn. destruct (Hfr x) as [Hx1 Hx2]; [lia | lia | assumption |].
      split; [|assumption]. rewrite Hx1. apply Ho3. unfold ss. lia. }
    destruct (R3 g Hfrs Hsn) as [Hsb Hsf].
    destruct (Hfr ss) as [Hss1 Hss2]; [unfold ss; lia | unfold ss in *; lia | unfold ss in *; lia|].
    rewrite Hss3 in Hss1.
    split.
    - intros c c' b1 b2 Hd Ha.
      assert (Hcase : DS s c c' b1 \/ (opt = true /\ c' = c /\ b1 = [])).
      { destruct opt; inversion Hd; subst; auto. }
      destruct Hcase as [Hds|(-> & -> & ->)].
      + destruct (Hsb c c' b1 b2 Hds Ha) as (t & Hin & Ht).
        eapply accc_eps; [rewrite Hss1; apply in_or_app; left; exact Hin | exact Ht].
      + cbn [List.app]. eapply accc_eps; [rewrite Hss1; apply in_or_app; right; now left | exact Ha].
    - intros n c bs Hrun.
      destruct (acchc_inv g n ss c bs Hss2 Hrun) as (l & t & m & c1 & d1 & d2 & -> & Hin & Hms & Hr & ->).
      rewrite Hss1 in Hin. apply in_app_or in Hin as [Hin|Hin].
      + destruct (Q4 l t Hin) as [-> _]. destruct (mstep_eps c c1 d1 Hms) as [-> ->].
        destruct (Hsf t Hin m (sc c) d2 Hr) as (c2 & e1 & e2 & m2 & Hm2 & Hds & He2 & ->).
        destruct (proj1 (den_sc_in D nopts) _ _ _ _ Hds c (eq_sym (sc_idem c))) as (c2' & Hds' & Esc).
        exists c2', e1, e2, m2. split; [lia|]. split; [destruct opt; now constructor|].
        split; [|reflexivity]. apply (acch_sc D g m2 se c2 c2'); [exact Esc | exact He2].
      + destruct opt; [|destruct Hin]. destruct Hin as [[= <- <-]|[]].
        destruct (mstep_eps c c1 d1 Hms) as [-> ->].
        exists c, [], d2, m. split; [lia|]. split; [apply DASqNone|]. split; [|reflexivity].
        apply (acch_sc D g m se (sc c) c); [symmetry; apply sc_idem | exact Hr].
  Qed.

  Theorem fragments : (forall s, PS s) /\ (forall c, PC c) /\ (forall ra, PR ra) /\ (forall a, PA a).
  Proof.
    apply ast_mutind.
    - apply ps_nil.
    - intros c Hc s Hs. now apply ps_cons.
    - intros ra Hra. now apply pc_one.
    - intros ra Hra c Hc. now apply pc_alt.
    - intros a Ha rep. exact Ha.
    - intros i. now apply (pa_leaf (AArg i) (LArg i)).
    - now apply (pa_leaf AOptions (LGrp (List.seq 0 nopts))).
    - intros i. now apply (pa_leaf (AOpt i) (LOpt i)).
    - intros js. now apply (pa_leaf (AGroup js) (LGrp js)).
    - now apply (pa_leaf ADD LDD).
    - intros s Hs. exact (pa_group false s Hs).
    - intros s Hs. exact (pa_group true s Hs).
  Qed.
End Frag.

(** * The whole automaton *)
Section Top.
  Variable D : optinfo.
  Variable nopts : nat.

  Notation AccC g s c bs := (Acc D g s (fst c) (snd c) bs).

  Lemma terminal_set_other g s x : x <> s -> terminal (set_terminal g s) x = terminal g x.
  Proof. intros H. unfold terminal, set_terminal. cbn [g_term]. apply nth_set_nth_other. congruence. Qed.

  Lemma terminal_set_same g s : wft g -> s < nstates g -> terminal (set_terminal g s) s = true.
  Proof. intros Hw Hs. unfold terminal, set_terminal. cbn [g_term]. apply nth_set_nth_same. unfold wft in Hw. lia. Qed.

  (** The automaton built for a spec accepts, from its start state, exactly the command lines that
      the spec read as a regular expression over matcher steps accepts, with the same bindings. *)
  Theorem thompson_correct (e : seq) :
    ne_seq e = true ->
    forall (c : cfg) bs,
      AccC (snd (thompson nopts e)) (fst (thompson nopts e)) c bs <-> Accepts D nopts e c bs.
  Proof.
    intros Hne c bs. unfold thompson.
    destruct (new_state empty_graph) as [ss g1] eqn:E1.
    assert (Hss : ss = 0 /\ nstates g1 = 1 /\ edges g1 0 = [] /\ allfalse g1 /\ wft g1).
    { unfold new_state, empty_graph in E1. injection E1 as <- <-. repeat split; try reflexivity.
      intros x. unfold terminal. cbn. destruct x as [|[|x]]; reflexivity. }
    destruct Hss as (-> & N1 & He1 & Haf1 & Hwt1).
    pose proof (fragments D nopts) as (HPS & _). specialize (HPS e Hne g1 0 ltac:(lia) He1 Haf1). cbv zeta in HPS.
    destruct (thompson_wft nopts) as (Hwt & _). specialize (Hwt e 0 g1 Hwt1).
    destruct (thompson_footprint nopts) as (FPs & _). destruct (FPs e 0 g1 ltac:(lia)) as (_ & _ & _ & Haf2).
    destruct (th_seq nopts e 0 g1) as [se g2] eqn:Es. cbn [fst snd] in *.
    destruct HPS as (R1 & R2 & R3). specialize (Haf2 Haf1).
    destruct e as [|ch rest].
    - (* the empty spec *)
      destruct (R1 eq_refl) as [-> ->].
      assert (Ht : terminal (set_terminal g1 0) 0 = true) by (apply terminal_set_same; [assumption | lia]).
      split.
      + intros H. inversion H as [s0 a0 r0 Hemp Hterm | s0 a0 r0 l t rem ro' b b' Hedge Hrun Hrest]; subst.
        * exists c. split; [constructor | assumption].
        * change (edges (set_terminal g1 0) 0) with (edges g1 0) in Hedge. rewrite He1 in Hedge. destruct Hedge.
      + intros (c' & Hd & Hf). inversion Hd; subst. now apply AccEnd.
    - destruct (R2 ltac:(discriminate)) as (Q1 & Q2 & Q3 & Q4).
      set (g := set_terminal g2 se).
      assert (Hfr : frozen g2 g (nstates g1) (nstates g2) (eq se)).
      { intros x Hlo Hhi Hn. split; [reflexivity|]. unfold g. rewrite terminal_set_other by congruence. apply Haf2. }
      destruct (R3 g Hfr ltac:(discriminate)) as [Hb Hf].
      assert (Ht0 : terminal g 0 = false) by (unfold g; rewrite terminal_set_other by lia; apply Haf2).
      assert (Hts : terminal g se = true) by (apply terminal_set_same; assumption).
      assert (Hes : edges g se = []) by exact Q3.
      split.
      + intros H. apply (acc_acch D) in H as [n H].
        destruct (acchc_inv D g n 0 c bs Ht0 H) as (l & t & m & c1 & d1 & d2 & -> & Hin & Hms & Hr & ->).
        change (edges g 0) with (edges g2 0) in Hin. destruct (Q4 l t Hin) as [-> _].
        destruct (mstep_eps D c c1 d1 Hms) as [-> ->].
        destruct (Hf t Hin m (sc c) d2 Hr) as (c2 & e1 & e2 & m2 & Hm2 & Hds & He2 & ->).
        inversion He2 as [n0 s0 a0 r0 Hemp Hterm | n0 s0 a0 r0 l0 t0 rem ro' b b' Hedge Hrun Hrest]; subst.
        * destruct (proj1 (den_sc_in D nopts) _ _ _ _ Hds c (eq_sym (sc_idem c))) as (c2' & Hds' & Esc).
          exists c2'. split; [cbn [List.app]; now rewrite app_nil_r|].
          unfold sc in Esc. now rewrite Esc.
        * rewrite Hes in Hedge. destruct Hedge.
      + intros (c' & Hd & Hfin).
        destruct (Hb c c' bs [] Hd) as (t & Hin & Ht); [now apply AccEnd|].
        rewrite app_nil_r in Ht. eapply acc_eps; [exact Hin | exact Ht].
  Qed.
End Top.
