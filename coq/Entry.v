(** Entry points for the extracted model: decoding of case files and encoding of
    observations, both over a generic tree type so that the OCaml driver only parses and
    prints trees. Nothing here is used by the theorems. *)
From MowCli Require Import Base Lexer Parser Nfa Matchers Apply Values Flow Cmd RefSem View.

Inductive sx := SA (s : str) | SL (l : list sx).

Definition sx_str (x : sx) : str := match x with SA s => s | SL _ => [] end.
Definition sx_list (x : sx) : list sx := match x with SL l => l | SA _ => [] end.
Definition sx_bool (x : sx) : bool := str_eqb (sx_str x) (lit "1").
Definition sx_Z (x : sx) : Z := match parse_int (sx_str x) with Some z => z | None => 0%Z end.
Definition sx_nat (x : sx) : nat := Z.to_nat (sx_Z x).
Definition sx_strs (x : sx) : list str := map sx_str (sx_list x).
Definition sx_nth (n : nat) (x : sx) : sx := nth n (sx_list x) (SL []).

Definition of_bool (b : bool) : sx := SA (if b then lit "1" else lit "0").
Definition of_nat (n : nat) : sx := SA (show_int (Z.of_nat n)).
Definition of_strs (l : list str) : sx := SL (map SA l).

(** association tables: environment and float oracle *)
Fixpoint assoc (k : str) (l : list (str * str)) : option str :=
  match l with
  | [] => None
  | (k', v) :: l' => if str_eqb k k' then Some v else assoc k l'
  end.
Definition dec_pairs (x : sx) : list (str * str) :=
  map (fun p => (sx_str (sx_nth 0 p), sx_str (sx_nth 1 p))) (sx_list x).
Definition getenv_of (env : list (str * str)) (k : str) : str :=
  match assoc k env with Some v => v | None => [] end.
(** float table entries: (token, canonical) ; tokens that do not parse are absent *)
Definition float_of (tbl : list (str * str)) (k : str) : option str := assoc k tbl.

Section Dec.
  Variable floats : list (str * str).

  Definition dec_kind (x : sx) : kind :=
    let k := sx_str (sx_nth 0 x) in
    if str_eqb k (lit "bool") then KBool
    else if str_eqb k (lit "string") then KString
    else if str_eqb k (lit "int") then KInt
    else if str_eqb k (lit "float") then KFloat
    else if str_eqb k (lit "strings") then KStrings
    else if str_eqb k (lit "ints") then KInts
    else if str_eqb k (lit "floats") then KFloats
    else KCustom (mkCustom (sx_bool (sx_nth 1 x)) (sx_bool (sx_nth 2 x))
                           (sx_bool (sx_nth 3 x)) (sx_bool (sx_nth 4 x))).

  Definition canon_float (s : str) : str :=
    match float_of floats s with Some c => c | None => lit "0" end.

  (** default value from its strings (the harness parses them with strconv) *)
  Definition dec_init (k : kind) (def : list str) : cval :=
    match k with
    | KBool => VBool (match parse_bool (hd [] def) with Some b => b | None => false end)
    | KString => VStr (hd [] def)
    | KInt => VInt (match parse_int (hd [] def) with Some z => z | None => 0%Z end)
    | KFloat => VFloat (match def with [] => lit "0" | s :: _ => canon_float s end)
    | KStrings => VStrs def
    | KInts => VInts (map (fun s => match parse_int s with Some z => z | None => 0%Z end) def)
    | KFloats => VFloats (map canon_float def)
    | KCustom _ => VCustom []
    end.

  (** (isopt kind name desc env hide def sbu) *)
  Definition dec_decl (x : sx) : decl :=
    let k := dec_kind (sx_nth 1 x) in
    mkDecl (sx_bool (sx_nth 0 x)) k (sx_str (sx_nth 2 x)) (sx_str (sx_nth 3 x))
           (sx_str (sx_nth 4 x)) (sx_bool (sx_nth 5 x)) (dec_init k (sx_strs (sx_nth 6 x)))
           (sx_bool (sx_nth 7 x)).

  (** hook: () | (ret) | (panic v) | (exit n) *)
  Definition dec_hook (x : sx) : hook :=
    match sx_list x with
    | [] => HAbsent
    | k :: rest =>
      if str_eqb (sx_str k) (lit "ret") then HReturns
      else if str_eqb (sx_str k) (lit "panic") then HPanics (sx_nat (hd (SL []) rest))
      else HExits (sx_Z (hd (SL []) rest))
    end.

  (** (name desc longdesc hidden spec policy decls before action after subs); policy "" = inherit *)
  Fixpoint dec_cmd (x : sx) : cmd :=
    match x with
    | SL [n; d; ld; h; sp; pol; ds; b; a; f; SL subs] =>
      Cmd (sx_str n) (sx_str d) (sx_str ld) (sx_bool h) (sx_str sp)
          (match sx_str pol with [] => None | _ => Some (sx_nat pol) end)
          (map dec_decl (sx_list ds)) (dec_hook b) (dec_hook a) (dec_hook f)
          ((fix go (l : list sx) : list cmd :=
              match l with [] => [] | y :: l' => dec_cmd y :: go l' end) subs)
    | _ => Cmd [] [] [] false [] None [] HAbsent HAbsent HAbsent []
    end.
End Dec.

(** * Encoders *)

Definition enc_token (t : token) : sx :=
  let ty := match tk_typ t with
            | TArg => lit "Arg" | TOpenPar => lit "OpenPar" | TClosePar => lit "ClosePar"
            | TOpenSq => lit "OpenSq" | TCloseSq => lit "CloseSq" | TChoice => lit "Choice"
            | TOptions => lit "Options" | TRep => lit "Rep" | TShortOpt => lit "ShortOpt"
            | TLongOpt => lit "LongOpt" | TOptSeq => lit "OptSeq" | TOptValue => lit "OptValue"
            | TDblDash => lit "DblDash"
            end in
  SL [SA ty; SA (tk_val t); of_nat (tk_pos t)].

Definition e_lex (spec : str) : sx :=
  match tokenize spec with
  | LexOk ts => SL [SA (lit "ok"); SL (map enc_token ts)]
  | LexErr m p => SL [SA (lit "err"); SA m; of_nat p]
  | LexFuel => SL [SA (lit "fuel")]
  end.

Definition enc_nats (l : list nat) : str :=
  concat_str [c_comma] (map (fun n => show_int (Z.of_nat n)) l).

Definition enc_label (l : label) : str :=
  match l with
  | LEps => lit "eps"
  | LArg i => lit "arg:" ++ show_int (Z.of_nat i)
  | LOpt i => lit "opt:" ++ show_int (Z.of_nat i)
  | LGrp is => lit "grp:" ++ enc_nats is
  | LDD => lit "dd"
  end.

Definition enc_graph (start : nat) (g : graph) : sx :=
  SL [of_nat start;
      SL (map (fun p : list edge * bool =>
                 SL [of_bool (snd p);
                     SL (map (fun e : edge => SL [SA (enc_label (fst e)); of_nat (snd e)]) (fst p))])
              (combine (g_tr g) (g_term g)))].

Definition enc_init (r : init_res) : sx :=
  match r with
  | IOk i => SL [SA (lit "ok"); SA (i_spec i); enc_graph (i_start i) (i_graph i)]
  | ISpecErr m p => SL [SA (lit "err"); SA m; of_nat p]
  | IDeclPanic m => SL [SA (lit "panic"); SA m]
  | IFuel => SL [SA (lit "fuel")]
  end.

(** (floats env decls spec) *)
Definition e_compile (x : sx) : sx :=
  let floats := dec_pairs (sx_nth 0 x) in
  let env := dec_pairs (sx_nth 1 x) in
  enc_init (do_init (float_of floats) (getenv_of env)
                    (map (dec_decl floats) (sx_list (sx_nth 2 x))) (sx_str (sx_nth 3 x))).

Definition enc_key (k : key) : str :=
  match k with
  | KO i => lit "o:" ++ show_int (Z.of_nat i)
  | KA i => lit "a:" ++ show_int (Z.of_nat i)
  end.

(** bindings in the harness's order: options in declaration order, then arguments, each
    container's values in recorded order *)
Definition order_binds (nopts nargs : nat) (bs : list binding) : list binding :=
  flat_map (fun i => map (fun v => (KO i, v)) (values_for (KO i) bs)) (List.seq 0 nopts)
  ++ flat_map (fun i => map (fun v => (KA i, v)) (values_for (KA i) bs)) (List.seq 0 nargs).

(** (floats env decls (kind idxs) args ro) *)
Definition e_match (x : sx) : sx :=
  let floats := dec_pairs (sx_nth 0 x) in
  let env := dec_pairs (sx_nth 1 x) in
  let ds := map (dec_decl floats) (sx_list (sx_nth 2 x)) in
  let m := sx_nth 3 x in
  let idxs := map sx_nat (sx_list (sx_nth 1 m)) in
  let args := sx_strs (sx_nth 4 x) in
  let ro := sx_bool (sx_nth 5 x) in
  match declare (float_of floats) (getenv_of env) ds [] [] with
  | inr msg => SL [SA (lit "panic"); SA msg]
  | inl (opts, cargs) =>
    let D := optinfo_of opts in
    let k := sx_str (sx_nth 0 m) in
    let r := if str_eqb k (lit "opt") then m_opt D (hd 0 idxs) args ro
             else if str_eqb k (lit "grp") then m_group D idxs args ro
             else if str_eqb k (lit "arg") then m_arg (hd 0 idxs) args ro
             else m_dd args ro in
    match r with
    | None => SL [SA (lit "fail")]
    | Some (rem, ro', bs) =>
      SL [SA (lit "ok"); of_strs rem; of_bool ro';
          SL (map (fun b : binding => SL [SA (enc_key (fst b)); SA (snd b)])
                  (order_binds (length opts) (length cargs) bs))]
    end
  end.

Definition enc_outcome (o : routcome) : sx :=
  match o with
  | RRet None => SL [SA (lit "ret"); SA []]
  | RRet (Some EUsage) => SL [SA (lit "ret"); SA (lit "usage")]
  | RRet (Some EConv) => SL [SA (lit "ret"); SA (lit "conv")]
  | RExit n => SL [SA (lit "exit"); SA (show_int n)]
  | RPanicUser v => SL [SA (lit "panic"); SA (lit "user:" ++ show_int (Z.of_nat v))]
  | RPanicErr EUsage => SL [SA (lit "panic"); SA (lit "err:usage")]
  | RPanicErr EConv => SL [SA (lit "panic"); SA (lit "err:conv")]
  | RPanicNil => SL [SA (lit "panic"); SA (lit "nil")]
  | RPanicSpec m p => SL [SA (lit "panic"); SA (lit "parse:" ++ show_int (Z.of_nat p) ++ lit ":" ++ m)]
  | RPanicDecl m => SL [SA (lit "panic"); SA (lit "str:" ++ m)]
  | RFuel => SL [SA (lit "fuel")]
  end.

Definition enc_path (p : list str) : str := concat_str (lit "/") p.

Definition enc_event (e : hkind * list str) : sx :=
  SA ((match fst e with HBefore => lit "B:" | HAction => lit "A:" | HAfter => lit "F:" end)
        ++ enc_path (snd e)).

Definition enc_level (lv : list str * list container * list container) : list sx :=
  let '(path, opts, args) := lv in
  map (fun c : container =>
         SL [SA (enc_path path ++ lit "|" ++ d_name (ct_decl c));
             of_strs (observe (ct_value c));
             SA (if d_sbu (ct_decl c) then (if ct_user c then lit "1" else lit "0") else []);
             of_bool (match d_kind (ct_decl c) with KCustom _ => true | _ => false end)])
      (opts ++ args).

(** values are meaningful when an Action ran *)
Definition enc_result (r : result) : sx :=
  SL [enc_outcome (r_outcome r);
      SL (map enc_event (r_trace r));
      of_strs (r_stderr r);
      SL (flat_map enc_level (r_levels r))].

(** (floats env version root argv); version = () | (name text) | (name text last) *)
Definition e_run (x : sx) : sx :=
  let floats := dec_pairs (sx_nth 0 x) in
  let env := dec_pairs (sx_nth 1 x) in
  let ver := match sx_list (sx_nth 2 x) with
             | n :: t :: _ => Some (sx_str n, sx_str t)
             | _ => None
             end in
  let last := match sx_list (sx_nth 2 x) with
              | [_; _; l] => sx_bool l
              | _ => false
              end in
  let root := dec_cmd floats (sx_nth 3 x) in
  enc_result (run (float_of floats) (getenv_of env) (mkAppAt root ver last) (sx_strs (sx_nth 4 x))).

(** * Reference semantics as an oracle *)

Definition rdecl_of (opts : list container) : rdecl := View.rdecl_of (optinfo_of opts).

Definition enc_verdict (v : verdict) : sx :=
  SA (match v with Yes => lit "yes" | No => lit "no" | Unclaimed => lit "unclaimed" end).

Definition dec_key (s : str) : key :=
  match s with
  | c :: _ :: n => (if Ascii.eqb c "o"%char then KO else KA)
                     (match parse_int n with Some z => Z.to_nat z | None => 0 end)
  | _ => KO 0
  end.

(** (floats env decls spec argv target); target = () or ((key (vals...)) ...) preceded by a flag
    -> (status model-verdict R-greedy-lo R-greedy-hi R-ideal has_help has_q1 derivation-check) *)
Definition e_sentence (x : sx) : sx :=
  let floats := dec_pairs (sx_nth 0 x) in
  let env := dec_pairs (sx_nth 1 x) in
  let ds := map (dec_decl floats) (sx_list (sx_nth 2 x)) in
  let spec := sx_str (sx_nth 3 x) in
  let w := sx_strs (sx_nth 4 x) in
  let tgt : target :=
      match sx_list (sx_nth 5 x) with
      | [] => None
      | _ :: l => Some (map (fun p => (dec_key (sx_str (sx_nth 0 p)), sx_strs (sx_nth 1 p))) l)
      end in
  match declare (float_of floats) (getenv_of env) ds [] [] with
  | inr m => SL [SA (lit "declpanic")]
  | inl (opts, args) =>
    let spec' := match spec with [] => default_spec opts args | _ => spec end in
    match tokenize spec' with
    | LexOk toks =>
      match parse_tokens (lookup_name opts) (lookup_name args) (length spec') toks with
      | ParseOk ast =>
        let D := rdecl_of opts in
        let n := length opts in
        let mv := match compile opts args spec' with
                  | IOk i => match fsm_apply (optinfo_of opts) (i_graph i) (i_start i) w with
                             | AOk _ => lit "yes" | AFail => lit "no" | AFuel => lit "fuel" end
                  | _ => lit "fuel"
                  end in
        SL [SA (lit "ok"); SA mv;
            enc_verdict (r_match D (Greedy false) n ast w None);
            enc_verdict (r_match D (Greedy true) n ast w None);
            enc_verdict (r_match D Ideal n ast w None);
            of_bool (has_help w); of_bool (has_q1 D w);
            match tgt with
            | None => SA []
            | Some _ => enc_verdict (r_match D (Greedy true) n ast w tgt)
            end]
      | _ => SL [SA (lit "specerr")]
      end
    | _ => SL [SA (lit "specerr")]
    end
  end.

(** the symbol views of several command lines under one command (hypotheses of the C10 / C11
    theorems): (floats env decls spec (argv ...)) -> (status sane no-dd-graph (view ...) no-env) *)
Definition enc_vs (s : vs) : sx :=
  match s with
  | VO o v => SL [SA (lit "o"); of_nat o; SA v]
  | VP t => SL [SA (lit "p"); SA t]
  | VDD => SL [SA (lit "dd")]
  end.

Definition e_views (x : sx) : sx :=
  let floats := dec_pairs (sx_nth 0 x) in
  let env := dec_pairs (sx_nth 1 x) in
  let ds := map (dec_decl floats) (sx_list (sx_nth 2 x)) in
  let spec := sx_str (sx_nth 3 x) in
  let ws := map sx_strs (sx_list (sx_nth 4 x)) in
  match declare (float_of floats) (getenv_of env) ds [] [] with
  | inr m => SL [SA (lit "declpanic")]
  | inl (opts, args) =>
    let spec' := match spec with [] => default_spec opts args | _ => spec end in
    match compile opts args spec' with
    | IOk i =>
      let D := optinfo_of opts in
      SL [SA (lit "ok"); of_bool (sane D); of_bool (no_dd_graph (i_graph i));
          SL (map (fun w => match view D w with
                            | Some u => SL (map enc_vs u)
                            | None => SA (lit "none")
                            end) ws);
          of_bool (no_env opts)]
    | _ => SL [SA (lit "specerr")]
    end
  end.

(** one command object parsing two lines in turn (C20, RerunProofs): (floats env decls spec argv1 argv2) *)
Definition e_rerun (x : sx) : sx :=
  let floats := dec_pairs (sx_nth 0 x) in
  let env := dec_pairs (sx_nth 1 x) in
  let ds := map (dec_decl floats) (sx_list (sx_nth 2 x)) in
  let spec := sx_str (sx_nth 3 x) in
  match do_init (float_of floats) (getenv_of env) ds spec with
  | IOk i =>
    match fsm_parse_twice (float_of floats) i (sx_strs (sx_nth 4 x)) (sx_strs (sx_nth 5 x)) with
    | Some (PAccept o a) => SL [SA (lit "accept"); SL (enc_level ([lit "app"], o, a))]
    | Some PUsage => SL [SA (lit "usage")]
    | Some PConv => SL [SA (lit "conv")]
    | Some PFuelOut => SL [SA (lit "fuel")]
    | None => SL [SA (lit "unknown")]
    end
  | _ => SL [SA (lit "initerr")]
  end.

(** dispatcher: (op payload) *)
Definition e_dispatch (x : sx) : sx :=
  let op := sx_str (sx_nth 0 x) in
  let p := sx_nth 1 x in
  if str_eqb op (lit "lex") then e_lex (sx_str p)
  else if str_eqb op (lit "compile") then e_compile p
  else if str_eqb op (lit "match") then e_match p
  else if str_eqb op (lit "run") then e_run p
  else if str_eqb op (lit "sentence") then e_sentence p
  else if str_eqb op (lit "views") then e_views p
  else if str_eqb op (lit "rerun") then e_rerun p
  else SL [SA (lit "unknown-op")].
