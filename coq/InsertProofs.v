(** C09 on the model: inserting the first "--" of the command line anywhere in the trailing block of
    positional arguments (its very end included) changes neither the verdict nor any binding, for every
    automaton without a spec-level "--". The relation carried through the search ([RI]): either the
    two lines read as [p ++ positionals] and [p ++ "--" :: the same positionals], or the inserted
    "--" has been dropped and the two remainders are the same positionals, one with options still
    open and one with options ended. The second case needs the hypothesis that the property's own
    quantifier makes, no environment-backed option: an option group with an environment-backed
    member is the one matcher that tells these two configurations apart (quirk Q2 of DESIGN 1: with
    E set, spec "-ef X" accepts "x" and rejects "-- x"; found again by this proof). *)
From MowCli Require Import Base Nfa Matchers Apply View ApplyProofs TermProofs MatcherProofs SimProofs ViewProofs GroupProofs.

Definition allpos (a : list str) : Prop := Forall positional a.

Lemma take_app_stop o p w : (match w with VO _ _ :: _ => False | _ => True end) ->
  take o (p ++ w) = match take o p with Some (v, p') => Some (v, p' ++ w) | None => None end.
Proof.
  intros Hw. induction p as [|s p IH]; cbn [List.app take].
  - destruct w as [|[q v|t|] w]; try reflexivity. contradiction.
  - destruct s as [q v|t|]; try reflexivity. destruct (Nat.eqb o q); [reflexivity|].
    rewrite IH. destruct (take o p) as [[v' p']|]; reflexivity.
Qed.

Lemma take_nodd o p v p' : no_dd p -> take o p = Some (v, p') -> no_dd p'.
Proof.
  revert v p'. induction p as [|s p IH]; intros v p' Hn; cbn [take]; [discriminate|].
  inversion Hn as [|x l Hs Hn']; subst. destruct s as [q w|t|]; try discriminate.
  destruct (Nat.eqb o q).
  - intros [= <- <-]. exact Hn'.
  - destruct (take o p) as [[v' p'']|] eqn:E; [|discriminate]. intros [= <- <-].
    constructor; [assumption | exact (IH v' p'' Hn' eq_refl)].
Qed.

Section Insert.
  Variable D : optinfo.
  Hypothesis Hnodd : oi_lookup D s_dd = None.
  Hypothesis Hnoeq : oi_lookup D [c_dash; c_eq] = None.
  (** no option is backed by the environment (the quantifier of C09) *)
  Hypothesis Hnoenv : forall o, oi_fromenv D o = false.
  Notation Reads := (Reads D).

  Lemma reads_allpos q : allpos q -> Reads q (map VP q).
  Proof. induction 1 as [|t q Ht _ IH]; cbn [map]; [constructor | now apply RPos]. Qed.

  (** a line that reads as positionals only is those positionals *)
  Lemma reads_all_vp a : forall q, Reads a (map VP q) -> a = q /\ allpos q.
  Proof.
    induction a as [|t rest IH]; intros q H; pose proof (reads_head D Hnodd Hnoeq _ _ H) as Hh; cbv beta iota in Hh.
    - destruct q; [split; [reflexivity | constructor] | discriminate].
    - destruct (str_eqb t s_dd); [destruct q; discriminate|].
      destruct q as [|t' q]; [contradiction|]. cbn [map] in Hh. destruct Hh as (-> & Hp & Hr).
      destruct (IH q Hr) as [-> Hq]. split; [reflexivity | now constructor].
  Qed.

  Lemma reads_dd_vp a q : Reads a (VDD :: map VP q) -> a = s_dd :: q.
  Proof.
    intros H. pose proof (reads_head D Hnodd Hnoeq _ _ H) as Hh. cbv beta iota in Hh.
    destruct a as [|t rest]; [discriminate|].
    destruct (str_eqb t s_dd) eqn:E; [|contradiction].
    apply str_eqb_eq in E. subst t. injection Hh as Hh. apply map_VP_inj in Hh. now subst.
  Qed.

  Lemma allpos_head_not_dd t q : allpos (t :: q) -> str_eqb t s_dd = false.
  Proof. intros H. inversion H; subst. now apply positional_not_dd. Qed.

  Lemma strip_allpos q r : allpos q -> strip q r = (q, r).
  Proof.
    intros H. destruct q as [|t q]; [reflexivity|]. unfold strip. rewrite (allpos_head_not_dd t q H).
    now rewrite andb_false_r.
  Qed.

  (** on positionals only no option matcher succeeds, options open or ended *)
  Lemma m_opt_allpos o q r : allpos q -> m_opt D o q r = None.
  Proof.
    intros H. unfold m_opt. rewrite Hnoenv. destruct q as [|t q]; [reflexivity|]. destruct r; [reflexivity|].
    inversion H as [|x l Hp _]; subst. cbn [scan].
    destruct Hp as [->|Hd]; [now rewrite str_eqb_refl|].
    destruct (str_eqb t s_dash); [reflexivity|]. destruct (str_eqb t s_dd); [reflexivity|]. now rewrite Hd.
  Qed.

  Lemma try_opts_allpos opts q : allpos q -> forall ex, try_opts D opts ex q = None.
  Proof.
    intros H ex. unfold try_opts.
    assert (Hc : try_consume D opts ex q = None).
    { induction opts as [|o opts IH]; cbn [try_consume]; [reflexivity|].
      destruct (mem_nat o ex); [exact IH|]. now rewrite (m_opt_allpos o q false H). }
    assert (He : try_env D opts ex q = None).
    { clear Hc. induction opts as [|o opts IH]; cbn [try_env]; [reflexivity|].
      destruct (mem_nat o ex); [exact IH|]. now rewrite (m_opt_allpos o q false H). }
    now rewrite Hc, He.
  Qed.

  Lemma m_group_allpos js q r : allpos q -> m_group D js q r = None.
  Proof.
    intros H. unfold m_group, try_. destruct q as [|t q]; [reflexivity|]. destruct r; [reflexivity|].
    now rewrite (try_opts_allpos js (t :: q) H []).
  Qed.

  (** the relation carried through the search *)
  Inductive RI : cfg -> cfg -> Prop :=
  | RIins a1 a2 p q : no_dd p -> Reads a1 (p ++ map VP q) -> Reads a2 (p ++ VDD :: map VP q) ->
                      RI (a1, false) (a2, false)
  | RIpos q r1 r2 : allpos q -> RI (q, r1) (q, r2).

  Definition RIo (a1 a2 : list str) : Prop :=
    exists p q, no_dd p /\ Reads a1 (p ++ map VP q) /\ Reads a2 (p ++ VDD :: map VP q).

  Lemma RI_strip a1 r1 a2 r2 : RI (a1, r1) (a2, r2) ->
    RI (strip a1 r1) (strip a2 r2) /\ (fst (strip a1 r1) = [] <-> fst (strip a2 r2) = []).
  Proof.
    intros H. inversion H as [b1 b2 p q Hp H1 H2 | q r1' r2' Hq]; subst.
    - destruct p as [|s p].
      + cbn [List.app] in H1, H2. destruct (reads_all_vp _ _ H1) as [-> Hq]. rewrite (reads_dd_vp _ _ H2).
        rewrite (strip_allpos q false Hq). cbn [strip]. rewrite str_eqb_refl. cbn [negb andb fst snd].
        split; [now constructor | tauto].
      + (* the inserted "--" is not at the head yet: nothing is dropped on either side *)
        inversion Hp as [|x l Hs Hp']; subst.
        assert (E1 : strip a1 false = (a1, false)).
        { pose proof (reads_head D Hnodd Hnoeq _ _ H1) as X. destruct a1 as [|t rest]; [reflexivity|].
          rewrite strip_false_cons. destruct (str_eqb t s_dd); [|reflexivity]. cbn [List.app] in X. congruence. }
        assert (E2 : strip a2 false = (a2, false)).
        { pose proof (reads_head D Hnodd Hnoeq _ _ H2) as X. destruct a2 as [|t rest]; [reflexivity|].
          rewrite strip_false_cons. destruct (str_eqb t s_dd); [|reflexivity]. cbn [List.app] in X. congruence. }
        rewrite E1, E2. cbn [fst]. split; [exact H|].
        rewrite (reads_nil_iff D Hnodd Hnoeq _ _ H1), (reads_nil_iff D Hnodd Hnoeq _ _ H2). cbn [List.app]. split; discriminate.
    - rewrite !(strip_allpos _ _ Hq). cbn [fst]. split; [exact H | tauto].
  Qed.

  Lemma RIo_opt o a1 a2 : RIo a1 a2 ->
    match m_opt D o a1 false, m_opt D o a2 false with
    | Some (m1, _, b1), Some (m2, _, b2) => b1 = b2 /\ RIo m1 m2 /\ (m1 = a1 <-> m2 = a2)
    | None, None => True
    | _, _ => False
    end.
  Proof.
    intros (p & q & Hp & H1 & H2).
    pose proof (m_opt_view D Hnodd Hnoeq o a1 _ H1) as M1. pose proof (m_opt_view D Hnodd Hnoeq o a2 _ H2) as M2.
    rewrite take_app_stop in M1 by (destruct q; exact I). rewrite take_app_stop in M2 by exact I.
    destruct (take o p) as [[v p']|] eqn:Tp.
    - destruct M1 as (m1 & E1 & R1), M2 as (m2 & E2 & R2). rewrite E1, E2.
      split; [reflexivity|]. split; [exists p', q; split; [eapply take_nodd; eauto | auto]|].
      destruct (m_opt_progress _ _ _ _ _ _ _ E1) as [_ [[_ X]|[L1 _]]]; [discriminate|].
      destruct (m_opt_progress _ _ _ _ _ _ _ E2) as [_ [[_ X]|[L2 _]]]; [discriminate|].
      split; intros ->; lia.
    - rewrite M1, M2. rewrite Hnoenv. exact I.
  Qed.

  Lemma m_opt_dd_head o q : m_opt D o (s_dd :: q) false = None.
  Proof. unfold m_opt. rewrite Hnoenv. cbn [scan]. change (str_eqb s_dd s_dash) with false. cbv iota. now rewrite str_eqb_refl. Qed.

  Lemma RIo_nil a1 a2 : RIo a1 a2 ->
    (a1 = [] <-> a2 = []) \/ (forall o, m_opt D o a1 false = None /\ m_opt D o a2 false = None).
  Proof.
    intros (p & q & Hp & H1 & H2). destruct p as [|s p].
    - right. cbn [List.app] in H1, H2. destruct (reads_all_vp _ _ H1) as [-> Hq]. rewrite (reads_dd_vp _ _ H2).
      intros o. split; [now apply m_opt_allpos | apply m_opt_dd_head].
    - left. rewrite (reads_nil_iff D Hnodd Hnoeq _ _ H1), (reads_nil_iff D Hnodd Hnoeq _ _ H2). split; discriminate.
  Qed.

  Lemma unchanged_iff a r m : unchanged a r m r = true <-> m = a.
  Proof.
    unfold unchanged. rewrite andb_true_iff. split.
    - intros [H _]. now apply strs_eqb_eq.
    - intros ->. split; [now apply strs_eqb_eq | now destruct r].
  Qed.

  Lemma unchanged_bits a1 r1 m1 a2 r2 m2 : (m1 = a1 <-> m2 = a2) -> unchanged a1 r1 m1 r1 = unchanged a2 r2 m2 r2.
  Proof.
    intros H. destruct (unchanged a1 r1 m1 r1) eqn:E1, (unchanged a2 r2 m2 r2) eqn:E2; try reflexivity.
    - apply unchanged_iff in E1. apply H in E1. apply (unchanged_iff a2 r2) in E1. congruence.
    - apply unchanged_iff in E2. apply H in E2. apply (unchanged_iff a1 r1) in E2. congruence.
  Qed.

  Lemma RI_step l a1 r1 a2 r2 : l <> LDD -> RI (a1, r1) (a2, r2) ->
    strip a1 r1 = (a1, r1) -> strip a2 r2 = (a2, r2) ->
    match run_matcher D l a1 r1, run_matcher D l a2 r2 with
    | Some (m1, o1, b1), Some (m2, o2, b2) =>
      b1 = b2 /\ RI (m1, o1) (m2, o2) /\ unchanged a1 r1 m1 o1 = unchanged a2 r2 m2 o2
    | None, None => True
    | _, _ => False
    end.
  Proof.
    intros Hl HR St1 St2. inversion HR as [b1 b2 p q Hp H1 H2 | q r1' r2' Hq]; subst.
    - (* the inserted "--" is further on *)
      destruct l as [|i|o|js|]; cbn [run_matcher]; [| | | |congruence].
      + split; [reflexivity|]. split; [exact HR|]. now rewrite !unchanged_same.
      + pose proof (reads_head D Hnodd Hnoeq _ _ H1) as X1. pose proof (reads_head D Hnodd Hnoeq _ _ H2) as X2.
        cbv beta iota in X1, X2. unfold m_arg.
        destruct a2 as [|t2 q2].
        { destruct p; discriminate. }
        rewrite (stripped_head _ _ St2) in X2.
        destruct p as [|s p]; [cbn [List.app] in X2; contradiction|]. cbn [List.app] in X1, X2.
        destruct a1 as [|t1 q1]; [discriminate|]. rewrite (stripped_head _ _ St1) in X1.
        inversion Hp as [|x l' Hs Hp']; subst.
        destruct s as [o v|t|]; [| |congruence].
        * destruct X1 as [-> ->], X2 as [-> ->]. exact I.
        * destruct X1 as (-> & P1 & R1), X2 as (-> & P2 & R2).
          assert (X : negb false && dashed t2 && negb (str_eqb t2 s_dash) = false).
          { cbn [negb andb]. destruct P2 as [-> | ->]; reflexivity. }
          rewrite X. split; [reflexivity|]. split; [now apply (RIins q1 q2 p q)|].
          rewrite !unchanged_shorter by (cbn; lia). reflexivity.
      + assert (HO : RIo a1 a2) by (exists p, q; auto).
        pose proof (RIo_opt o a1 a2 HO) as X.
        destruct (m_opt D o a1 false) as [[[m1 o1] c1]|] eqn:E1, (m_opt D o a2 false) as [[[m2 o2] c2]|] eqn:E2;
          try contradiction; [|exact I].
        destruct (m_opt_progress _ _ _ _ _ _ _ E1) as [-> _]. destruct (m_opt_progress _ _ _ _ _ _ _ E2) as [-> _].
        destruct X as (-> & (p' & q' & Hp' & R1 & R2) & Hu). split; [reflexivity|].
        split; [now apply (RIins m1 m2 p' q') | now apply unchanged_bits].
      + assert (HO : RIo a1 a2) by (exists p, q; auto).
        pose proof (m_group_rel D RIo RIo_nil RIo_opt js a1 a2 HO) as X.
        destruct (m_group D js a1 false) as [[[m1 o1] c1]|] eqn:E1, (m_group D js a2 false) as [[[m2 o2] c2]|] eqn:E2;
          try contradiction; [|exact I].
        destruct (m_group_progress _ _ _ _ _ _ _ E1) as [-> _]. destruct (m_group_progress _ _ _ _ _ _ _ E2) as [-> _].
        destruct X as (-> & (p' & q' & Hp' & R1 & R2) & Hu). split; [reflexivity|].
        split; [now apply (RIins m1 m2 p' q') | now apply unchanged_bits].
    - (* the same positionals, options open on one side and ended on the other *)
      destruct l as [|i|o|js|]; cbn [run_matcher]; [| | | |congruence].
      + split; [reflexivity|]. split; [exact HR|]. now rewrite !unchanged_same.
      + unfold m_arg. destruct a2 as [|t q]; [exact I|]. inversion Hq as [|x l' Hp Hq']; subst.
        assert (X : forall r, negb r && dashed t && negb (str_eqb t s_dash) = false).
        { intros r. destruct r; [reflexivity|]. cbn [negb andb]. destruct Hp as [-> | ->]; reflexivity. }
        rewrite !X. split; [reflexivity|]. split; [now constructor|].
        rewrite !unchanged_shorter by (cbn; lia). reflexivity.
      + rewrite !(m_opt_allpos o a2 _ Hq). exact I.
      + rewrite (m_group_allpos js a2 r1 Hq), (m_group_allpos js a2 r2 Hq). exact I.
  Qed.

  (** inserting "--" where only positionals follow changes neither the verdict nor any binding *)
  Theorem insertion_same_result g start a1 a2 p q :
    wf_graph g -> (forall s t, ~ In (LDD, t) (edges g s)) -> start < nstates g ->
    no_dd p -> Reads a1 (p ++ map VP q) -> Reads a2 (p ++ VDD :: map VP q) ->
    fsm_apply D g start a1 = fsm_apply D g start a2.
  Proof.
    intros Hwf Hnd Hs Hp H1 H2.
    apply (bisim_same_result D g RI (fun l => l <> LDD) Hwf).
    - intros s l t Hin ->. exact (Hnd s t Hin).
    - exact RI_strip.
    - intros l b1 r1 b2 r2 Hl. now apply RI_step.
    - exact Hs.
    - now apply (RIins a1 a2 p q).
  Qed.

  (** token level: [pre] reads as [p] whatever follows, [q1] and [q2] are positionals *)
  Theorem insert_dd_same_result g start pre p q1 q2 :
    wf_graph g -> (forall s t, ~ In (LDD, t) (edges g s)) -> start < nstates g ->
    Prefix D pre p -> no_dd p -> allpos q1 -> allpos q2 ->
    fsm_apply D g start (pre ++ q1 ++ q2) = fsm_apply D g start (pre ++ q1 ++ s_dd :: q2).
  Proof.
    intros Hwf Hnd Hs Hpre Hp Hq1 Hq2.
    apply (insertion_same_result g start _ _ (p ++ map VP q1) q2); auto.
    - unfold no_dd in *. apply Forall_app. split; [assumption|].
      clear. induction q1; cbn; constructor; [discriminate | assumption].
    - rewrite <- app_assoc. apply Hpre. rewrite <- map_app. apply reads_allpos.
      unfold allpos in *. apply Forall_app. now split.
    - rewrite <- app_assoc. apply Hpre.
      assert (X : Prefix D q1 (map VP q1)).
      { clear -Hq1. induction Hq1 as [|t q Ht _ IH]; [apply prefix_nil|].
        intros rest u H. cbn [List.app map]. apply RPos; [assumption | now apply IH]. }
      apply X. constructor.
  Qed.
End Insert.

(** * Command level, decidable hypotheses *)
From MowCli Require Import Parser Values Flow Cmd RefSem NfaProofs CompileProofs ReadProofs.

Lemma no_env_spec opts : no_env opts = true -> forall o, oi_fromenv (optinfo_of opts) o = false.
Proof.
  unfold no_env. rewrite forallb_forall. intros H o. cbn [optinfo_of oi_fromenv].
  destruct (nth_error opts o) as [c|] eqn:E; [|reflexivity].
  specialize (H c (nth_error_In _ _ E)). now apply negb_true_iff in H.
Qed.

Theorem inserted_dd_same_parse parse_float opts args spec i a1 a2 p q :
  compile opts args spec = IOk i ->
  sane (optinfo_of opts) = true -> no_dd_graph (i_graph i) = true -> no_env opts = true ->
  no_dd_b p = true ->
  view (optinfo_of opts) a1 = Some (p ++ map VP q) ->
  view (optinfo_of opts) a2 = Some (p ++ VDD :: map VP q) ->
  fsm_parse parse_float i a1 = fsm_parse parse_float i a2.
Proof.
  intros Hc Hsane Hnd Hne Hp V1 V2. destruct (compile_total opts args spec) as [_ Hok].
  destruct (Hok i Hc) as (Hw & Hs & Ho & _). unfold fsm_parse. rewrite Ho.
  unfold sane in Hsane.
  destruct (oi_lookup (optinfo_of opts) s_dd) eqn:E1; [discriminate|].
  destruct (oi_lookup (optinfo_of opts) [c_dash; c_eq]) eqn:E2; [discriminate|].
  rewrite (insertion_same_result (optinfo_of opts) E1 E2 (no_env_spec opts Hne) (i_graph i) (i_start i) a1 a2 p q); auto.
  - now apply no_dd_graph_spec.
  - now apply no_dd_b_spec.
  - now apply view_reads.
  - now apply view_reads.
Qed.
