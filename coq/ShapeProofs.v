(** C08: the tokens the lexer produces have the shapes the spec grammar names: short option
    "-x", folded options "-xyz" (letters only), long option "--name", argument in upper case (and not
    OPTIONS), OPTIONS, "--", "=<text>", "...", "|" and the four brackets. *)
From MowCli Require Import Base Lexer LexerProofs.
Local Arguments Ascii.eqb : simpl never.

Definition last_is (c : ascii) (l : str) : bool :=
  match rev l with x :: _ => Ascii.eqb x c | [] => false end.

Definition shape_b (t : token) : bool :=
  match tk_typ t with
  | TOpenSq => str_eqb (tk_val t) (lit "[")
  | TCloseSq => str_eqb (tk_val t) (lit "]")
  | TOpenPar => str_eqb (tk_val t) (lit "(")
  | TClosePar => str_eqb (tk_val t) (lit ")")
  | TChoice => str_eqb (tk_val t) (lit "|")
  | TRep => str_eqb (tk_val t) (lit "...")
  | TDblDash => str_eqb (tk_val t) s_dd
  | TShortOpt => match tk_val t with [d; o] => Ascii.eqb d c_dash && isLetter o | _ => false end
  | TOptSeq => (2 <=? length (tk_val t)) && forallb isLetter (tk_val t)
  | TLongOpt => match tk_val t with
                | d1 :: d2 :: e :: name =>
                  Ascii.eqb d1 c_dash && Ascii.eqb d2 c_dash && isOkLongOpt e true &&
                  forallb (fun x => isOkLongOpt x false) name
                | _ => false
                end
  | TOptValue => match tk_val t with
                 | e :: l :: body => Ascii.eqb e c_eq && Ascii.eqb l "<"%char && (2 <=? length body) && last_is ">"%char body
                 | _ => false
                 end
  | TOptions => str_eqb (tk_val t) s_options
  | TArg => match tk_val t with
            | c :: more => isUppercase c && forallb isOkInArg more && negb (str_eqb (tk_val t) s_options)
            | [] => false
            end
  end.

Lemma span_forallb p l : forallb p (fst (span p l)) = true.
Proof.
  induction l as [|c l IH]; cbn [span]; [reflexivity|].
  destruct (p c) eqn:E; [|reflexivity]. destruct (span p l) as [a b]. cbn [fst forallb] in *. now rewrite E.
Qed.

Lemma span_stop p l : forall a g r, span p l = (a, g :: r) -> p g = false.
Proof.
  induction l as [|x l IH]; intros a g r; cbn [span]; [discriminate|].
  destruct (p x) eqn:E.
  - destruct (span p l) as [a' b'] eqn:Es. intros [= _ ->]. now apply (IH a' g r).
  - intros [= <- <- <-]. exact E.
Qed.

Lemma last_is_app c l : last_is c (l ++ [c]) = true.
Proof. unfold last_is. rewrite rev_app_distr. cbn. apply Ascii.eqb_refl. Qed.

Theorem lex_shapes : forall fuel pos rest acc ts,
  lex fuel pos rest acc = LexOk ts -> forallb shape_b acc = true -> forallb shape_b ts = true.
Proof.
  induction fuel as [|f IH]; intros pos rest acc ts; [discriminate|].
  destruct rest as [|c r1]; cbn [lex].
  { intros [= <-] H. rewrite forallb_forall in *. intros x Hx. apply H. now apply in_rev. }
  assert (Hpush : forall p r tk, shape_b tk = true -> lex f p r (tk :: acc) = LexOk ts ->
                                 forallb shape_b acc = true -> forallb shape_b ts = true).
  { intros p r tk Hs Hl Ha. apply (IH _ _ _ _ Hl). cbn [forallb]. now rewrite Hs, Ha. }
  destruct (Ascii.eqb c c_space || Ascii.eqb c c_tab); [apply IH|].
  destruct (Ascii.eqb c "["%char) eqn:E1; [apply eqb_char in E1; subst; now apply Hpush|].
  destruct (Ascii.eqb c "]"%char) eqn:E2; [apply eqb_char in E2; subst; now apply Hpush|].
  destruct (Ascii.eqb c "("%char) eqn:E3; [apply eqb_char in E3; subst; now apply Hpush|].
  destruct (Ascii.eqb c ")"%char) eqn:E4; [apply eqb_char in E4; subst; now apply Hpush|].
  destruct (Ascii.eqb c "|"%char) eqn:E5; [apply eqb_char in E5; subst; now apply Hpush|].
  destruct (Ascii.eqb c "."%char) eqn:E6.
  { destruct r1 as [|d1 r2]; [discriminate|]. destruct (Ascii.eqb d1 "."%char); [|discriminate].
    destruct r2 as [|d2 r3]; [discriminate|]. destruct (Ascii.eqb d2 "."%char); [|discriminate]. now apply Hpush. }
  destruct (Ascii.eqb c c_dash) eqn:E7.
  { destruct r1 as [|o r2]; [discriminate|]. destruct (isLetter o) eqn:Hl.
    - pose proof (span_forallb isLetter r2) as Hsp. destruct (span isLetter r2) as [letters r3]. cbn [fst] in Hsp.
      assert (Hs : shape_b (if 2 <? 2 + length letters then mkTok TOptSeq (o :: letters) pos
                            else mkTok TShortOpt [c_dash; o] pos) = true).
      { destruct letters as [|l1 ls]; cbn [length Nat.add Nat.ltb Nat.leb].
        - unfold shape_b. cbn [tk_typ tk_val]. now rewrite Ascii.eqb_refl, Hl.
        - unfold shape_b. cbn [tk_typ tk_val length Nat.leb andb]. change (forallb isLetter (o :: l1 :: ls)) with (isLetter o && forallb isLetter (l1 :: ls)). now rewrite Hl, Hsp. }
      destruct r3 as [|d r4]; [now apply Hpush|]. destruct (Ascii.eqb d c_dash); [discriminate | now apply Hpush].
    - destruct (Ascii.eqb o c_dash) eqn:Hd; [|discriminate]. apply eqb_char in Hd. subst o.
      destruct r2 as [|e r3]; [now apply Hpush|].
      destruct (dd_end e); [now apply Hpush|].
      destruct (isOkLongOpt e true) eqn:He; [|discriminate].
      pose proof (span_forallb (fun x => isOkLongOpt x false) r3) as Hsp.
      destruct (span (fun x => isOkLongOpt x false) r3) as [name r4]. cbn [fst] in Hsp.
      apply Hpush. unfold shape_b. cbn [tk_typ tk_val]. now rewrite !Ascii.eqb_refl, He, Hsp. }
  destruct (Ascii.eqb c c_eq) eqn:E8.
  { destruct r1 as [|l r2]; [discriminate|]. destruct (Ascii.eqb l "<"%char) eqn:El; [|discriminate].
    destruct (span (fun x => negb (Ascii.eqb x ">"%char)) r2) as [body r3] eqn:Hsp.
    destruct r3 as [|g r4]; [discriminate|]. destruct body as [|b0 body]; [discriminate|].
    assert (Hg : g = ">"%char).
    { pose proof (span_stop _ _ _ _ _ Hsp) as X. apply negb_false_iff in X. now apply eqb_char in X. }
    subst g. apply Hpush. unfold shape_b. cbn [tk_typ tk_val]. apply eqb_char in E8, El. subst c l.
    rewrite !Ascii.eqb_refl. cbn [andb]. change (b0 :: body ++ [">"%char]) with ((b0 :: body) ++ [">"%char]).
    rewrite last_is_app, andb_true_r. rewrite app_length. cbn [length]. destruct (length body); reflexivity. }
  destruct (isUppercase c) eqn:E9; [|discriminate].
  pose proof (span_forallb isOkInArg r1) as Hsp. destruct (span isOkInArg r1) as [more r2]. cbn [fst] in Hsp.
  apply Hpush. unfold shape_b. cbn [tk_typ tk_val].
  destruct (str_eqb (c :: more) s_options) eqn:Eo; cbn [tk_typ tk_val].
  - reflexivity.
  - now rewrite E9, Hsp.
Qed.

Theorem tokenize_shapes s ts : tokenize s = LexOk ts -> forallb shape_b ts = true.
Proof. intros H. now apply (lex_shapes _ _ _ _ _ H). Qed.
