(** C12 — an environment value can only satisfy an option, never restrict the command line.
    PARTIAL. Proved for every table, option, command line and flag: giving more options an
    environment value never turns a success of the single-option matcher into a failure and never
    changes what it consumes or records (the fallback only fires when the scan found nothing); a
    required single option absent from the line is satisfied by its environment value; in an option
    group, an option is excluded only after a match that recorded nothing (the D4 repair), so an
    occurrence on the line is consumed however many times it is written. NOT yet proved: the forward
    simulation through the group loop and State.apply for arbitrary specs — covered on every run by
    comparing the implementation with itself under every subset of set variables. *)
From MowCli Require Import Base Matchers ApplyProofs TermProofs.

Theorem C12_single_option_monotone :
  forall (D D' : optinfo) o args ro r,
    oi_lookup D' = oi_lookup D -> oi_isbool D' = oi_isbool D ->
    (forall i, oi_fromenv D i = true -> oi_fromenv D' i = true) ->
    m_opt D o args ro = Some r -> m_opt D' o args ro = Some r.
Proof. exact m_opt_env_monotone. Qed.

(** a required option absent from the command line is satisfied by its environment value: the
    matcher succeeds without consuming or recording anything *)
Theorem C12_required_satisfied :
  forall D o, oi_fromenv D o = true -> m_opt D o [] false = Some ([], false, []).
Proof. intros D o H. unfold m_opt. now rewrite H. Qed.

(** in a group, a match that recorded a value never excludes the option (D4) *)
Theorem C12_group_excludes_only_after_empty_match :
  forall D opts excluded args rem bs ex',
    try_opts D opts excluded args = Some (rem, bs, ex') ->
    (args_size rem < args_size args /\ ex' = excluded) \/
    (rem = args /\ bs = [] /\ exists o, In o opts /\ mem_nat o excluded = false /\ ex' = o :: excluded).
Proof. exact try_opts_progress. Qed.

Print Assumptions C12_single_option_monotone.
Print Assumptions C12_required_satisfied.
Print Assumptions C12_group_excludes_only_after_empty_match.

(** D4, repaired, on the model: [OPTIONS] with E set accepts "-e a -e b" *)
Example C12_repeat_ok :
  let D := mkOI (fun n => if str_eqb n (lit "-e") then Some 0 else None) (fun _ => false) (fun _ => true) in
  m_group D [0] [lit "-e"; lit "a"; lit "-e"; lit "b"] false
  = Some ([], false, [(KO 0, lit "a"); (KO 0, lit "b")]).
Proof. vm_compute. reflexivity. Qed.
