(** C12 — an environment value can only satisfy an option, never restrict the command line.
    PROVED on the model for command lines that read cleanly (decidable, [View.view]; PC10.v) and
    options tables with no option called "-" or "=":
    [C12_env_only_enlarges]: for every well-formed automaton (specs with "--" included), if the
    command line is accepted with a set of environment-backed options it is accepted with any larger
    set; [C12_every_run_survives]: indeed every accepting run remains one, with the same bindings;
    [C12_written_values_kept] (automata without a spec-level "--"): the values recorded for every
    option are the same in both — those written on the command line ([PC02.C02_written_values_exactly]).
    [C12_group_is_greedy]: on a cleanly read line the options group takes, one at a time, the first
    listed option that has an occurrence in the current run until none has, whatever the
    environment: an option written any number of times is consumed every time (the D4 repair, for
    all inputs), and [C12_group_monotone]: whatever the group does without an environment value it
    does with it. [C12_required_satisfied]: a required single option absent from the line is
    satisfied by its environment value. The single-option and exclusion lemmas are kept.
    NOT covered by the theorems: lines with an unreadable or Q1 token; covered on every run by
    comparing the implementation with itself under every subset of set variables. *)
From MowCli Require Import Base Nfa Matchers Apply View ApplyProofs TermProofs ViewProofs AccountProofs GroupProofs EnvProofs Values Flow Cmd ProgEnvProofs.

Theorem C12_single_option_monotone :
  forall (D D' : optinfo) o args ro r,
    oi_lookup D' = oi_lookup D -> oi_isbool D' = oi_isbool D ->
    (forall i, oi_fromenv D i = true -> oi_fromenv D' i = true) ->
    m_opt D o args ro = Some r -> m_opt D' o args ro = Some r.
Proof. exact m_opt_env_monotone. Qed.

(** a required option absent from the command line is satisfied by its environment value: the
    matcher succeeds without consuming or recording anything *)
Theorem C12_required_satisfied :
  forall D o, oi_fromenv D o = true -> m_opt D o [] false = Some ([], false, []).
Proof. intros D o H. unfold m_opt. now rewrite H. Qed.

(** in a group, a match that recorded a value never excludes the option (D4) *)
Theorem C12_group_excludes_only_after_empty_match :
  forall D opts excluded args rem bs ex',
    try_opts D opts excluded args = Some (rem, bs, ex') ->
    (args_size rem < args_size args /\ ex' = excluded) \/
    (rem = args /\ bs = [] /\ exists o, In o opts /\ mem_nat o excluded = false /\ ex' = o :: excluded).
Proof. exact try_opts_progress. Qed.

(** the options group on a cleanly read command line: greedy, independent of the environment *)
Theorem C12_group_is_greedy :
  forall D, oi_lookup D s_dd = None -> oi_lookup D [c_dash; c_eq] = None ->
  forall opts a u m ro b, Reads D a u ->
    m_group D opts a false = Some (m, ro, b) -> ro = false /\ Greedy D opts a b m.
Proof. exact m_group_greedy. Qed.

Theorem C12_greedy_ignores_environment :
  forall D D', same_names D D' -> forall opts a b m, Greedy D opts a b m -> Greedy D' opts a b m.
Proof. exact greedy_ext. Qed.

Theorem C12_group_monotone :
  forall D D', more_env D D' -> oi_lookup D s_dd = None -> oi_lookup D [c_dash; c_eq] = None ->
  forall opts a u r, Reads D a u ->
    m_group D opts a false = Some r -> m_group D' opts a false = Some r.
Proof. exact m_group_mono. Qed.

Theorem C12_every_run_survives :
  forall D D', more_env D D' -> oi_lookup D s_dd = None -> oi_lookup D [c_dash; c_eq] = None ->
  forall g s a ro bs, Acc D g s a ro bs -> forall u, View D a ro u -> Acc D' g s a ro bs.
Proof. exact acc_mono. Qed.

Theorem C12_env_only_enlarges :
  forall D D', more_env D D' -> oi_lookup D s_dd = None -> oi_lookup D [c_dash; c_eq] = None ->
  forall g start a u bs,
    wf_graph g -> start < nstates g -> Reads D a u ->
    fsm_apply D g start a = AOk bs -> exists bs', fsm_apply D' g start a = AOk bs'.
Proof. exact env_only_enlarges. Qed.

Theorem C12_written_values_kept :
  forall D D', more_env D D' -> oi_lookup D s_dd = None -> oi_lookup D [c_dash; c_eq] = None ->
  forall g start a u bs bs',
    (forall s t, ~ In (LDD, t) (edges g s)) -> Reads D a u ->
    fsm_apply D g start a = AOk bs -> fsm_apply D' g start a = AOk bs' ->
    forall o, b_occs o bs' = b_occs o bs.
Proof. exact env_keeps_written_values. Qed.

(** After the D8 repair (options.try prefers an option that finds an occurrence of itself to one satisfied by its
    environment value) the first clause of the property holds with NO hypothesis on the command line and none on
    the spec: malformed tokens, folded tokens carrying '=', a spec-level "--", anything. *)
Theorem C12_group_monotone_on_every_line :
  forall D D', more_env D D' ->
  forall opts a r, m_group D opts a false = Some r -> m_group D' opts a false = Some r.
Proof. exact m_group_mono_all. Qed.

Theorem C12_every_run_survives_on_every_line :
  forall D D', more_env D D' ->
  forall g s a ro bs, Acc D g s a ro bs -> Acc D' g s a ro bs.
Proof. exact acc_mono_all. Qed.

Theorem C12_env_only_enlarges_on_every_line :
  forall D D', more_env D D' ->
  forall g start a bs,
    wf_graph g -> start < nstates g ->
    fsm_apply D g start a = AOk bs -> exists bs', fsm_apply D' g start a = AOk bs'.
Proof. exact env_only_enlarges_all. Qed.

(** ... and for programs: the same declarations and the same spec initialised under two environments compile to the
    same automaton; when the second environment backs every option the first one backs (each option's variable list
    yields a valid value under the second whenever it does under the first), every command line the program
    accepts under the first it accepts under the second. *)
Theorem C12_same_program_two_environments :
  forall (parse_float : str -> option str) (g1 g2 : str -> str) ds spec i1,
    do_init parse_float g1 ds spec = IOk i1 ->
    exists i2, do_init parse_float g2 ds spec = IOk i2 /\
               i_graph i2 = i_graph i1 /\ i_start i2 = i_start i1 /\
               same_names (optinfo_of (i_opts i1)) (optinfo_of (i_opts i2)).
Proof. exact do_init_two_envs. Qed.

Theorem C12_env_only_enlarges_for_programs :
  forall (parse_float : str -> option str) (g1 g2 : str -> str) ds spec i1 i2 argv bs,
    do_init parse_float g1 ds spec = IOk i1 -> do_init parse_float g2 ds spec = IOk i2 ->
    (forall o, oi_fromenv (optinfo_of (i_opts i1)) o = true -> oi_fromenv (optinfo_of (i_opts i2)) o = true) ->
    fsm_apply (optinfo_of (i_opts i1)) (i_graph i1) (i_start i1) argv = AOk bs ->
    exists bs', fsm_apply (optinfo_of (i_opts i2)) (i_graph i2) (i_start i2) argv = AOk bs'.
Proof. exact env_only_enlarges_program. Qed.

Print Assumptions C12_same_program_two_environments.
Print Assumptions C12_env_only_enlarges_for_programs.
Print Assumptions C12_group_monotone_on_every_line.
Print Assumptions C12_every_run_survives_on_every_line.
Print Assumptions C12_env_only_enlarges_on_every_line.
Print Assumptions C12_group_is_greedy.
Print Assumptions C12_greedy_ignores_environment.
Print Assumptions C12_group_monotone.
Print Assumptions C12_every_run_survives.
Print Assumptions C12_env_only_enlarges.
Print Assumptions C12_written_values_kept.
Print Assumptions C12_single_option_monotone.
Print Assumptions C12_required_satisfied.
Print Assumptions C12_group_excludes_only_after_empty_match.

(** D4, repaired, on the model: [OPTIONS] with E set accepts "-e a -e b" *)
Example C12_repeat_ok :
  let D := mkOI (fun n => if str_eqb n (lit "-e") then Some 0 else None) (fun _ => false) (fun _ => true) in
  m_group D [0] [lit "-e"; lit "a"; lit "-e"; lit "b"] false
  = Some ([], false, [(KO 0, lit "a"); (KO 0, lit "b")]).
Proof. vm_compute. reflexivity. Qed.

(** non-vacuity of [more_env] and of the clean reading: the same table with and without E set; the
    group consumes both occurrences either way, and the required option alone is satisfied by E *)
Example C12_nonvacuous :
  let mk (env : bool) := mkOI (fun n => if str_eqb n (lit "-e") then Some 0 else None) (fun _ => false) (fun _ => env) in
  let a := [lit "-e"; lit "a"; lit "-e"; lit "b"] in
  (view (mk false) a, m_group (mk false) [0] a false, m_group (mk true) [0] a false,
   m_opt (mk false) 0 [] false, m_opt (mk true) 0 [] false)
  = (Some [VO 0 (lit "a"); VO 0 (lit "b")],
     Some ([], false, [(KO 0, lit "a"); (KO 0, lit "b")]), Some ([], false, [(KO 0, lit "a"); (KO 0, lit "b")]),
     None, Some ([], false, [])).
Proof. vm_compute. reflexivity. Qed.

Example C12_more_env_example :
  let mk (env : bool) := mkOI (fun n => if str_eqb n (lit "-e") then Some 0 else None) (fun _ => false) (fun _ => env) in
  more_env (mk false) (mk true).
Proof. repeat split; auto. Qed.

(** D8, repaired, on the model: group of -o (valued) and -a (flag), line "-aa=v -o=7". The scan for -o stops at
    "-aa=v"; before the repair an -o backed by the environment was then counted as matched and excluded, and the
    "-o=7" that -a uncovers was never taken: the line was accepted without O and rejected with it. *)
Example C12_d8_repaired :
  let mk (env : bool) := mkOI (fun n => if str_eqb n (lit "-o") then Some 0 else if str_eqb n (lit "-a") then Some 1 else None)
                              (fun i => Nat.eqb i 1) (fun i => env && Nat.eqb i 0) in
  let a := [lit "-aa=v"; lit "-o=7"] in
  (m_group (mk false) [0; 1] a false, m_group (mk true) [0; 1] a false)
  = (Some ([], false, [(KO 1, lit "true"); (KO 0, lit "7"); (KO 1, lit "v")]),
     Some ([], false, [(KO 1, lit "true"); (KO 0, lit "7"); (KO 1, lit "v")])).
Proof. vm_compute. reflexivity. Qed.

(** the program-level statement at work: the D8 witness as a program, with and without O in the environment *)
Example C12_program_example :
  let pf := fun _ : str => None in
  let ds := [mkDecl true KStrings (lit "o") [] (lit "O") false (VStrs []) false;
             mkDecl true KBool (lit "a") [] [] false (VBool false) false] in
  let without := fun _ : str => [] in
  let with_o := fun k : str => if str_eqb k (lit "O") then lit "ev" else [] in
  let accepted ge := match do_init pf ge ds (lit "-oa") with
                     | IOk i => match fsm_apply (optinfo_of (i_opts i)) (i_graph i) (i_start i) [lit "-aa=true"; lit "-o=7"] with
                                | AOk _ => true | _ => false end
                     | _ => false end in
  (accepted without, accepted with_o) = (true, true).
Proof. vm_compute. reflexivity. Qed.
