(** Only options that have a name are ever bound: an occurrence is recognised by looking a token's name up in the
    option table, so the option of every binding [(KO k, v)] of an accepting run is one that the table maps some
    name to. For the table of a command ([optinfo_of opts]) this means that the container has at least one name
    ([SortProofs.bindable]) — the hypothesis under which the sorted order of visit of fillContainers is unique.
    (An option declared with an empty or blank Name has no names, matches nothing and is never in the map.) *)
From MowCli Require Import Base Lexer Parser Nfa Matchers Apply Values Cmd ApplyProofs DeclProofs SortProofs.

Section Named.
  Variable D : optinfo.

  Definition named (o : nat) : Prop := exists n, oi_lookup D n = Some o.

  Definition opt_keys_named (bs : list binding) : Prop := forall k v, In (KO k, v) bs -> named k.

  Lemma okn_nil : opt_keys_named [].
  Proof. intros k v []. Qed.

  Lemma okn_app a b : opt_keys_named a -> opt_keys_named b -> opt_keys_named (a ++ b).
  Proof. intros Ha Hb k v H. apply in_app_or in H as [H|H]; eauto. Qed.

  Lemma match_long_named one arg after v tail : match_long D one arg after = Matched v tail -> named one.
  Proof.
    unfold match_long. destruct (split_eq arg) as [name vo].
    destruct (oi_lookup D name) as [o|] eqn:L; [|discriminate].
    assert (X : Nat.eqb o one = true -> named one) by (intros E; apply Nat.eqb_eq in E; subst; now exists name).
    destruct vo as [value|].
    - destruct (Nat.eqb o one); cbn [negb]; [auto | discriminate].
    - destruct (oi_isbool D o).
      + destruct (Nat.eqb o one); cbn [negb]; [auto | discriminate].
      + destruct after as [|a after']; [discriminate|]. destruct (Nat.eqb o one); cbn [negb]; [auto | discriminate].
  Qed.

  Lemma short_loop_named one suf : forall pre after v tail,
    short_loop D one pre suf after = Matched v tail -> named one.
  Proof.
    induction suf as [|c value IH]; intros pre after v tail; cbn [short_loop]; [discriminate|].
    destruct (oi_lookup D [c_dash; c]) as [o|] eqn:L; [|discriminate].
    assert (X : Nat.eqb o one = true -> named one) by (intros E; apply Nat.eqb_eq in E; subst; now exists [c_dash; c]).
    destruct (oi_isbool D o).
    - destruct (Nat.eqb o one); cbn [negb]; [auto | apply IH].
    - destruct value as [|c2 value'].
      + destruct after as [|a after']; [discriminate|]. destruct (Nat.eqb o one); cbn [negb]; [auto | discriminate].
      + destruct (Nat.eqb o one); cbn [negb]; [auto | discriminate].
  Qed.

  Lemma match_short_named one arg after v tail : match_short D one arg after = Matched v tail -> named one.
  Proof.
    unfold match_short. destruct arg as [|d [|n rest]]; try discriminate.
    destruct rest as [|e value]; [apply short_loop_named|].
    destruct (Ascii.eqb e c_eq); [|apply short_loop_named].
    destruct (oi_lookup D [d; n]) as [o|] eqn:L; [|discriminate].
    destruct (Nat.eqb o one) eqn:E; cbn [negb]; [|discriminate].
    intros _. apply Nat.eqb_eq in E. subst. now exists [d; n].
  Qed.

  Lemma scan_named_aux one n : forall rest pre v rem, length rest <= n -> scan D one pre rest = Some (v, rem) -> named one.
  Proof.
    induction n as [|n IH]; intros rest pre v rem Hl; destruct rest as [|arg after]; cbn [scan]; try discriminate;
      [cbn in Hl; lia|].
    destruct (str_eqb arg s_dash); [discriminate|]. destruct (str_eqb arg s_dd); [discriminate|].
    destruct (dashed arg); [|discriminate].
    destruct (if prefix_b s_dd arg then match_long D one arg after else match_short D one arg after) as [v0 tail|k] eqn:R.
    - intros _. destruct (prefix_b s_dd arg); [eapply match_long_named | eapply match_short_named]; exact R.
    - cbn in Hl. destruct k as [|[|k]]; [discriminate | apply IH; lia |].
      destruct after as [|a2 after2]; [discriminate|]. apply IH. cbn in Hl. lia.
  Qed.

  Lemma scan_named one rest pre v rem : scan D one pre rest = Some (v, rem) -> named one.
  Proof. apply (scan_named_aux one (length rest)). lia. Qed.

  Lemma m_opt_named o a ro rem ro' bs : m_opt D o a ro = Some (rem, ro', bs) -> opt_keys_named bs.
  Proof.
    unfold m_opt. set (fb := if oi_fromenv D o then Some (a, ro, @nil binding) else None).
    assert (F : fb = Some (rem, ro', bs) -> opt_keys_named bs).
    { unfold fb. destruct (oi_fromenv D o); [|discriminate]. intros [= <- <- <-]. apply okn_nil. }
    destruct a as [|a0 a']; [exact F|]. destruct ro; [exact F|].
    destruct (scan D o [] (a0 :: a')) as [[v r]|] eqn:S; [|exact F].
    intros [= <- <- <-]. intros k w [[= <- <-]|[]]. eapply scan_named; exact S.
  Qed.

  Lemma try_consume_named opts : forall ex a rem bs, try_consume D opts ex a = Some (rem, bs) -> opt_keys_named bs.
  Proof.
    induction opts as [|o opts IH]; intros ex a rem bs; cbn [try_consume]; [discriminate|].
    destruct (mem_nat o ex); [apply IH|].
    destruct (m_opt D o a false) as [[[r ro'] [|b bs0]]|] eqn:M; try apply IH.
    intros [= <- <-]. eapply m_opt_named; exact M.
  Qed.

  Lemma try_named opts ex a ro rem bs ex' : try_ D opts ex a ro = Some (rem, bs, ex') -> opt_keys_named bs.
  Proof.
    unfold try_, try_opts. destruct a as [|a0 a']; [discriminate|]. destruct ro; [discriminate|].
    destruct (try_consume D opts ex (a0 :: a')) as [[r b]|] eqn:T.
    - intros [= <- <- <-]. eapply try_consume_named; exact T.
    - destruct (try_env D opts ex (a0 :: a')); [|discriminate]. intros [= <- <- <-]. apply okn_nil.
  Qed.

  Lemma group_loop_named f : forall opts ex a acc rem bs,
    opt_keys_named acc -> group_loop D f opts ex a acc = Some (rem, bs) -> opt_keys_named bs.
  Proof.
    induction f as [|f IH]; intros opts ex a acc rem bs Hacc; cbn [group_loop]; [discriminate|].
    destruct (try_ D opts ex a false) as [[[r b] ex']|] eqn:T.
    - apply IH. apply okn_app; [assumption | eapply try_named; exact T].
    - now intros [= <- <-].
  Qed.

  Lemma m_group_named opts a ro rem ro' bs : m_group D opts a ro = Some (rem, ro', bs) -> opt_keys_named bs.
  Proof.
    unfold m_group. destruct (try_ D opts [] a ro) as [[[r b] ex]|] eqn:T; [|discriminate].
    destruct (group_loop D (group_fuel opts a) opts ex r b) as [[r' b']|] eqn:G; [|discriminate].
    intros [= <- <- <-]. eapply group_loop_named; [eapply try_named; exact T | exact G].
  Qed.

  Lemma run_matcher_named l a ro rem ro' bs : run_matcher D l a ro = Some (rem, ro', bs) -> opt_keys_named bs.
  Proof.
    destruct l as [|i|o|js|]; cbn [run_matcher].
    - intros [= <- <- <-]. apply okn_nil.
    - unfold m_arg. destruct a as [|a0 a']; [discriminate|].
      destruct (negb ro && dashed a0 && negb (str_eqb a0 s_dash)); [discriminate|].
      intros [= <- <- <-]. intros k v [H|[]]. discriminate.
    - apply m_opt_named.
    - apply m_group_named.
    - unfold m_dd. intros [= <- <- <-]. apply okn_nil.
  Qed.

  Theorem acc_named g s a ro bs : Acc D g s a ro bs -> opt_keys_named bs.
  Proof.
    intros H. induction H as [s a ro _ _ | s a ro l t rem ro' bs bs' _ Hm _ IH]; [apply okn_nil|].
    apply okn_app; [eapply run_matcher_named; exact Hm | exact IH].
  Qed.
End Named.

(** for the table of a command: every option bound by an accepted line has a name *)
Theorem bound_options_are_bindable opts g start argv bs k v :
  fsm_apply (optinfo_of opts) g start argv = AOk bs -> In (KO k, v) bs -> bindable opts k.
Proof.
  intros H Hin. unfold fsm_apply in H.
  destruct (apply (optinfo_of opts) g (apply_fuel g argv) start argv false []) as [r sn] eqn:E. cbn [fst] in H. subst r.
  pose proof (apply_sound _ _ _ _ _ _ _ _ _ E) as Hacc.
  destruct (acc_named _ _ _ _ _ _ Hacc k v Hin) as (n & L). cbn in L.
  destruct (lookup_sound opts n k L) as (c & Hc & Hn). exists c. split; [assumption|]. intros X. rewrite X in Hn. destruct Hn.
Qed.

Lemma key_eqb_true a b : key_eqb a b = true -> a = b.
Proof.
  destruct a as [x|x], b as [y|y]; cbn; try discriminate; intros E; apply Nat.eqb_eq in E; now subst.
Qed.

Lemma values_for_in k bs : values_for k bs <> [] -> exists v, In (k, v) bs.
Proof.
  unfold values_for. induction bs as [|[k0 v0] bs IH]; cbn [filter map fst]; [congruence|].
  destruct (key_eqb k0 k) eqn:E.
  - intros _. apply key_eqb_true in E. subst. exists v0. now left.
  - intros H. destruct (IH H) as (v & Hv). exists v. now right.
Qed.

(** the order in which the repaired fillContainers visits the options bound by an accepted line: unique *)
Theorem fill_order_of_an_accepted_line_is_unique parse_float getenv ds opts args g start argv bs (o1 o2 : list nat) :
  declare parse_float getenv ds [] [] = inl (opts, args) ->
  fsm_apply (optinfo_of opts) g start argv = AOk bs ->
  NoDup o1 -> (forall k, In k o1 -> values_for (KO k) bs <> []) -> Permutation.Permutation o1 o2 ->
  go_sorted nat (name_at opts) o1 -> go_sorted nat (name_at opts) o2 -> o1 = o2.
Proof.
  intros Hd Hrun Hnd Hb. apply (sorted_visit_is_a_function parse_float getenv ds opts args o1 o2 Hd Hnd).
  intros k Hk. destruct (values_for_in _ _ (Hb k Hk)) as (v & Hv).
  exact (bound_options_are_bindable opts g start argv bs k v Hrun Hv).
Qed.
