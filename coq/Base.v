(** Base: byte strings, small utilities, result type.
    Stdlib only. Go strings are byte strings: [str := list ascii]. *)
From Coq Require Export List Bool Arith NArith ZArith Ascii Lia.
Export ListNotations.

Definition str := list ascii.

Definition ascii_eqb := Ascii.eqb.

Fixpoint str_eqb (a b : str) : bool :=
  match a, b with
  | [], [] => true
  | x :: a', y :: b' => Ascii.eqb x y && str_eqb a' b'
  | _, _ => false
  end.

Lemma str_eqb_spec a b : reflect (a = b) (str_eqb a b).
Proof.
  revert b; induction a as [|x a IH]; intros [|y b]; simpl; try (constructor; congruence).
  destruct (Ascii.eqb_spec x y) as [->|Hn]; simpl.
  - destruct (IH b) as [->|Hn]; constructor; congruence.
  - constructor; congruence.
Qed.

Lemma str_eqb_refl a : str_eqb a a = true.
Proof. destruct (str_eqb_spec a a); congruence. Qed.

Lemma str_eqb_eq a b : str_eqb a b = true <-> a = b.
Proof. destruct (str_eqb_spec a b); split; congruence. Qed.

Fixpoint prefix_b (p s : str) : bool :=
  match p, s with
  | [], _ => true
  | x :: p', y :: s' => Ascii.eqb x y && prefix_b p' s'
  | _ :: _, [] => false
  end.

Definition ch (n : nat) : ascii := ascii_of_nat n.
Definition c_dash : ascii := "-"%char.
Definition c_eq : ascii := "="%char.
Definition c_space : ascii := " "%char.
Definition c_tab : ascii := "009"%char.
Definition c_nl : ascii := "010"%char.
Definition c_comma : ascii := ","%char.

Definition s_dash : str := [c_dash].
Definition s_dd : str := [c_dash; c_dash].

(** [s] starts with '-' *)
Definition dashed (s : str) : bool :=
  match s with c :: _ => Ascii.eqb c c_dash | [] => false end.

Definition code (c : ascii) : N := N_of_ascii c.
Definition in_range (lo hi : N) (c : ascii) : bool :=
  (lo <=? code c)%N && (code c <=? hi)%N.

(** list helpers *)
Fixpoint list_eqb {A} (eqb : A -> A -> bool) (a b : list A) : bool :=
  match a, b with
  | [], [] => true
  | x :: a', y :: b' => eqb x y && list_eqb eqb a' b'
  | _, _ => false
  end.

Definition strs_eqb := list_eqb str_eqb.

Lemma strs_eqb_eq a b : strs_eqb a b = true <-> a = b.
Proof.
  unfold strs_eqb.
  revert b; induction a as [|x a IH]; intros [|y b]; cbn [list_eqb]; try (split; congruence).
  rewrite andb_true_iff, str_eqb_eq, IH. split; [intros [-> ->]; reflexivity | intros H; inversion H; auto].
Qed.

Fixpoint mem_nat (n : nat) (l : list nat) : bool :=
  match l with [] => false | x :: l' => Nat.eqb n x || mem_nat n l' end.

Fixpoint mem_str (s : str) (l : list str) : bool :=
  match l with [] => false | x :: l' => str_eqb s x || mem_str s l' end.

Fixpoint find_index {A} (p : A -> bool) (l : list A) : option nat :=
  match l with
  | [] => None
  | x :: l' => if p x then Some 0 else option_map S (find_index p l')
  end.

Fixpoint set_nth {A} (n : nat) (x : A) (l : list A) : list A :=
  match n, l with
  | _, [] => []
  | 0, _ :: l' => x :: l'
  | S n', y :: l' => y :: set_nth n' x l'
  end.

Definition opt_bind {A B} (o : option A) (f : A -> option B) : option B :=
  match o with Some a => f a | None => None end.

(** first element of [l] on which [f] yields [Some] ([f] outside the fixpoint, as in List.map, so
    that recursive calls through it pass the guard check) *)
Section FirstSome.
  Context {A B : Type} (f : A -> option B).
  Fixpoint first_some (l : list A) : option B :=
    match l with
    | [] => None
    | x :: l' => match f x with Some b => Some b | None => first_some l' end
    end.
End FirstSome.

Fixpoint concat_str (sep : str) (l : list str) : str :=
  match l with
  | [] => []
  | [x] => x
  | x :: l' => x ++ sep ++ concat_str sep l'
  end.

(** strings from Coq string literals, for readability of the model *)
From Coq Require String.
Export String.StringSyntax.
Delimit Scope string_scope with string.
Definition lit (s : String.string) : str := String.list_ascii_of_string s.
Arguments lit s%string.

(** Go's order on strings: bytewise, a proper prefix first *)
Fixpoint str_ltb (a b : str) : bool :=
  match a, b with
  | _, [] => false
  | [], _ :: _ => true
  | x :: a', y :: b' =>
    if Nat.ltb (nat_of_ascii x) (nat_of_ascii y) then true
    else if Nat.ltb (nat_of_ascii y) (nat_of_ascii x) then false
    else str_ltb a' b'
  end.


