(** internal/values: the seven built-in value types, the custom-value protocol, SetFromEnv,
    setMultivalued, DefaultValue. strconv is an oracle for floats (a Section variable), and a
    Gallina function proved against its grammar for ints and bools. *)
From MowCli Require Import Base.

(** custom flag.Value as instrumented by the harness: which optional methods exist *)
Record custom := mkCustom { cu_isbool : bool; cu_clear : bool; cu_isdef : bool; cu_isdefval : bool }.

Inductive kind :=
| KBool | KString | KInt | KFloat | KStrings | KInts | KFloats
| KCustom (c : custom).

(** floats are opaque: a float value is the canonical text strconv.FormatFloat(f,'g',-1,64) *)
Inductive cval :=
| VBool (b : bool)
| VStr (s : str)
| VInt (z : Z)
| VFloat (f : str)
| VStrs (l : list str)
| VInts (l : list Z)
| VFloats (l : list str)
| VCustom (log : list str).   (* the call log: "S:"++tok for Set, "C" for Clear *)

Definition is_multi (k : kind) : bool :=
  match k with
  | KStrings | KInts | KFloats => true
  | KCustom c => cu_clear c
  | _ => false
  end.

Definition is_boolflag (k : kind) : bool :=
  match k with
  | KBool => true
  | KCustom c => cu_isbool c
  | _ => false
  end.

(** * strconv.ParseBool *)
Definition parse_bool (s : str) : option bool :=
  if mem_str s [lit "1"; lit "t"; lit "T"; lit "TRUE"; lit "true"; lit "True"] then Some true
  else if mem_str s [lit "0"; lit "f"; lit "F"; lit "FALSE"; lit "false"; lit "False"] then Some false
  else None.

(** * strconv.ParseInt(s, 10, 64): optional sign, one or more decimal digits, 64-bit range *)
Definition digit_val (c : ascii) : option Z :=
  if in_range 48 57 c then Some (Z.of_N (code c) - 48)%Z else None.

Fixpoint parse_digits (acc : Z) (s : str) : option Z :=
  match s with
  | [] => Some acc
  | c :: s' => match digit_val c with
               | Some d => parse_digits (acc * 10 + d)%Z s'
               | None => None
               end
  end.

Definition int_min : Z := (- 9223372036854775808)%Z.
Definition int_max : Z := 9223372036854775807%Z.

Definition parse_int (s : str) : option Z :=
  let (neg, digits) :=
      match s with
      | c :: s' => if Ascii.eqb c "+"%char then (false, s')
                   else if Ascii.eqb c c_dash then (true, s')
                   else (false, s)
      | [] => (false, s)
      end in
  match digits with
  | [] => None
  | _ => match parse_digits 0 digits with
         | Some n => let z := if neg then (- n)%Z else n in
                     if (int_min <=? z)%Z && (z <=? int_max)%Z then Some z else None
         | None => None
         end
  end.

(** decimal printing of an int (fmt %v) *)
Fixpoint pos_digits (fuel : nat) (n : Z) (acc : str) : str :=
  match fuel with
  | 0 => acc
  | S f => let d := ascii_of_N (Z.to_N (n mod 10) + 48) in
           if (n <? 10)%Z then d :: acc else pos_digits f (n / 10)%Z (d :: acc)
  end.
Definition show_int (z : Z) : str :=
  if (z <? 0)%Z then c_dash :: pos_digits 20 (- z)%Z [] else pos_digits 20 z [].

Definition show_bool (b : bool) : str := if b then lit "true" else lit "false".

(** Go's %#v of a string: strconv.Quote. Modelled for printable ASCII (other bytes are kept
    verbatim; generators keep defaults that are shown in help within printable ASCII). *)
Fixpoint quote_body (s : str) : str :=
  match s with
  | [] => []
  | c :: s' => if Ascii.eqb c """"%char then "\"%char :: """"%char :: quote_body s'
               else if Ascii.eqb c "\"%char then "\"%char :: "\"%char :: quote_body s'
               else c :: quote_body s'
  end.
Definition quote (s : str) : str := """"%char :: quote_body s ++ [""""%char].

Definition show_list (items : list str) : str :=
  lit "[" ++ concat_str (lit ", ") items ++ lit "]".

(** unicode.IsSpace over the UTF-8 bytes of a Go string: the six ASCII blanks, U+0085 and U+00A0 (two bytes),
    U+1680, U+2000..U+200A, U+2028, U+2029, U+202F, U+205F, U+3000 (three bytes). A byte that does not complete
    one of these sequences is not white space (an invalid or truncated sequence decodes to U+FFFD). *)
Definition is_space (c : ascii) : bool :=
  Ascii.eqb c c_space || in_range 9 13 c.
Definition byte_is (n : N) (c : ascii) : bool := N.eqb (code c) n.
Definition is_space2 (c d : ascii) : bool :=
  byte_is 194 c && (byte_is 133 d || byte_is 160 d).
Definition is_space3 (c d e : ascii) : bool :=
  (byte_is 225 c && byte_is 154 d && byte_is 128 e)
  || (byte_is 226 c && byte_is 128 d && (in_range 128 138 e || byte_is 168 e || byte_is 169 e || byte_is 175 e))
  || (byte_is 226 c && byte_is 129 d && byte_is 159 e)
  || (byte_is 227 c && byte_is 128 d && byte_is 128 e).

(** strings.TrimSpace *)
Fixpoint trim_left (s : str) : str :=
  match s with
  | [] => []
  | c :: s1 =>
    if is_space c then trim_left s1 else
    match s1 with
    | [] => s
    | d :: s2 =>
      if is_space2 c d then trim_left s2 else
      match s2 with
      | [] => s
      | e :: s3 => if is_space3 c d e then trim_left s3 else s
      end
    end
  end.
(** the same from the end, on the reversed string (the bytes of a sequence come last byte first) *)
Fixpoint trim_left_rev (s : str) : str :=
  match s with
  | [] => []
  | c :: s1 =>
    if is_space c then trim_left_rev s1 else
    match s1 with
    | [] => s
    | d :: s2 =>
      if is_space2 d c then trim_left_rev s2 else
      match s2 with
      | [] => s
      | e :: s3 => if is_space3 e d c then trim_left_rev s3 else s
      end
    end
  end.
Definition trim_space (s : str) : str := rev (trim_left_rev (rev (trim_left s))).

(** strings.Fields *)
Fixpoint fields_aux (s : str) (cur : str) : list str :=
  let flush (rest : list str) := match cur with [] => rest | _ => rev cur :: rest end in
  match s with
  | [] => flush []
  | c :: s1 =>
    if is_space c then flush (fields_aux s1 []) else
    match s1 with
    | [] => fields_aux s1 (c :: cur)
    | d :: s2 =>
      if is_space2 c d then flush (fields_aux s2 []) else
      match s2 with
      | [] => fields_aux s1 (c :: cur)
      | e :: s3 => if is_space3 c d e then flush (fields_aux s3 []) else fields_aux s1 (c :: cur)
      end
    end
  end.
Definition fields (s : str) : list str := fields_aux s [].

(** strings.Split(s, ",") *)
Fixpoint split_comma_aux (s : str) (cur : str) : list str :=
  match s with
  | [] => [rev cur]
  | c :: s' => if Ascii.eqb c c_comma then rev cur :: split_comma_aux s' []
               else split_comma_aux s' (c :: cur)
  end.
Definition split_comma (s : str) : list str := split_comma_aux s [].

Definition s_bad := lit "bad".

Section Values.
  (** strconv.ParseFloat(s, 64) followed by FormatFloat(f,'g',-1,64) *)
  Variable parse_float : str -> option str.
  Variable getenv : str -> str.

  (** Value.Set *)
  Definition vset (v : cval) (s : str) : option cval :=
    match v with
    | VBool _ => option_map VBool (parse_bool s)
    | VStr _ => Some (VStr s)
    | VInt _ => option_map VInt (parse_int s)
    | VFloat _ => option_map VFloat (parse_float s)
    | VStrs l => Some (VStrs (l ++ [s]))
    | VInts l => option_map (fun z => VInts (l ++ [z])) (parse_int s)
    | VFloats l => option_map (fun f => VFloats (l ++ [f])) (parse_float s)
    | VCustom _ => None   (* see vset_log: a custom Set always logs, also when it fails *)
    end.

  (** Set on any value: new state and success. A custom Set logs the token and fails iff the
      token starts with "bad"; a failing built-in Set leaves the value unchanged. *)
  Definition vset_log (v : cval) (s : str) : cval * bool :=
    match v with
    | VCustom log => (VCustom (log ++ [lit "S:" ++ s]), negb (prefix_b s_bad s))
    | _ => match vset v s with Some v' => (v', true) | None => (v, false) end
    end.

  (** MultiValued.Clear *)
  Definition vclear (v : cval) : cval :=
    match v with
    | VStrs _ => VStrs []
    | VInts _ => VInts []
    | VFloats _ => VFloats []
    | VCustom log => VCustom (log ++ [lit "C"])
    | _ => v
    end.

  (** setMultivalued *)
  Fixpoint set_all_trimmed (v : cval) (vs : list str) : cval * bool :=
    match vs with
    | [] => (v, true)
    | s :: vs' => let (v', ok) := vset_log v (trim_space s) in
                  if ok then set_all_trimmed v' vs' else (vclear v', false)
    end.
  Definition set_multivalued (v : cval) (vs : list str) : cval * bool :=
    set_all_trimmed (vclear v) vs.

  (** SetFromEnv over the listed variables *)
  Fixpoint set_from_env_vars (k : kind) (v : cval) (vars : list str) : cval * bool :=
    match vars with
    | [] => (v, false)
    | ev :: vars' =>
      match getenv ev with
      | [] => set_from_env_vars k v vars'
      | val =>
        let (v', ok) := if is_multi k then set_multivalued v (split_comma val)
                        else vset_log v val in
        if ok then (v', true) else set_from_env_vars k v' vars'
      end
    end.
  Definition set_from_env (k : kind) (v : cval) (envvars : str) : cval * bool :=
    set_from_env_vars k v (fields envvars).

  (** Value.String() *)
  Definition vstring (v : cval) : str :=
    match v with
    | VBool b => show_bool b
    | VStr s => quote s
    | VInt z => show_int z
    | VFloat f => f
    | VStrs l => show_list (map quote l)
    | VInts l => show_list (map show_int l)
    | VFloats l => show_list l
    | VCustom _ => lit "custom"
    end.

  (** values.DefaultValue *)
  Definition default_value (k : kind) (v : cval) : str :=
    let isdefault :=
        match v, k with
        | VBool b, _ => negb b
        | VStr s, _ => match s with [] => true | _ => false end
        | VStrs l, _ => match l with [] => true | _ => false end
        | VInts l, _ => match l with [] => true | _ => false end
        | VFloats l, _ => match l with [] => true | _ => false end
        | VCustom _, KCustom c => cu_isdef c && cu_isdefval c
        | _, _ => false
        end in
    if isdefault then [] else vstring v.

  (** what the user's variable holds, as the harness prints it *)
  Definition observe (v : cval) : list str :=
    match v with
    | VBool b => [show_bool b]
    | VStr s => [s]
    | VInt z => [show_int z]
    | VFloat f => [f]
    | VStrs l => l
    | VInts l => map show_int l
    | VFloats l => l
    | VCustom log => log
    end.
End Values.
