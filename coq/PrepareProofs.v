(** T1, second half: Prepare (shortcut elimination with the D2 repair, then the priority sort)
    preserves the accepting runs of the automaton, whatever the matchers do. *)
From MowCli Require Import Base Nfa Matchers Apply ApplyProofs TermProofs NfaProofs.

Section Prep.
  Variable D : optinfo.

  Notation Acc := (Acc D).

  (** Acc only looks at the stripped configuration *)
  Lemma acc_strip g s args ro bs :
    Acc g s (fst (strip args ro)) (snd (strip args ro)) bs <-> Acc g s args ro bs.
  Proof.
    pose proof (strip_idem args ro) as Hs.
    split; intros H.
    - inversion H as [s0 a0 r0 He Ht | s0 a0 r0 l t rem ro' b b' Hedge Hrun Hrest]; subst.
      + apply AccEnd; [now rewrite <- Hs | assumption].
      + eapply AccStep; [exact Hedge | rewrite <- Hs; exact Hrun | exact Hrest].
    - inversion H as [s0 a0 r0 He Ht | s0 a0 r0 l t rem ro' b b' Hedge Hrun Hrest]; subst.
      + apply AccEnd; [now rewrite Hs | assumption].
      + eapply AccStep; [exact Hedge | rewrite Hs; exact Hrun | exact Hrest].
  Qed.

  (** following a shortcut changes nothing but the state *)
  Lemma acc_eps g s n args ro bs :
    In (LEps, n) (edges g s) -> Acc g n args ro bs -> Acc g s args ro bs.
  Proof.
    intros Hin Ha. change bs with ([] ++ bs).
    eapply AccStep; [exact Hin | reflexivity |]. now apply acc_strip.
  Qed.

  (** two graphs with the same accepting runs from every state *)
  Definition same_runs (g g' : graph) : Prop := forall s args ro bs, Acc g s args ro bs <-> Acc g' s args ro bs.

  Lemma same_runs_refl g : same_runs g g.
  Proof. intros s a r b. reflexivity. Qed.
  Lemma same_runs_trans g1 g2 g3 : same_runs g1 g2 -> same_runs g2 g3 -> same_runs g1 g3.
  Proof. intros H1 H2 s a r b. rewrite (H1 s a r b). apply H2. Qed.

  (** a general transfer principle: if every transition and every acceptance of g can be mimicked
      in g' given that the continuation can, then every run of g is a run of g' *)
  Lemma runs_transfer g g' :
    (forall s, terminal g s = true -> forall args ro, fst (strip args ro) = [] -> Acc g' s args ro []) ->
    (forall s l t, In (l, t) (edges g s) ->
       forall args ro rem ro' b bs',
         run_matcher D l (fst (strip args ro)) (snd (strip args ro)) = Some (rem, ro', b) ->
         Acc g' t rem ro' bs' -> Acc g' s args ro (b ++ bs')) ->
    forall s args ro bs, Acc g s args ro bs -> Acc g' s args ro bs.
  Proof.
    intros Hend Hstep s args ro bs H.
    induction H as [s a r He Ht | s a r l t rem ro' b b' Hedge Hrun Hrest IH].
    - now apply Hend.
    - eapply Hstep; eauto.
  Qed.

  (** * Permuting the transitions of a state (the priority sort) *)
  Lemma sort_same_runs g : same_runs g (sort_graph g).
  Proof.
    assert (He : forall s e, In e (edges (sort_graph g) s) <-> In e (edges g s)).
    { intros s e. unfold edges, sort_graph. cbn [g_tr]. change [] with (sort_edges []) at 1.
      rewrite map_nth. apply sort_edges_in. }
    assert (Ht : forall s, terminal (sort_graph g) s = terminal g s) by reflexivity.
    intros s args ro bs. split; apply runs_transfer.
    - intros s0 H0 a r He0. apply AccEnd; [assumption | now rewrite Ht].
    - intros s0 l t Hin a r rem ro' b bs' Hrun Hacc. eapply AccStep; [apply He; exact Hin | exact Hrun | exact Hacc].
    - intros s0 H0 a r He0. apply AccEnd; [assumption | now rewrite <- Ht].
    - intros s0 l t Hin a r rem ro' b bs' Hrun Hacc. eapply AccStep; [apply He in Hin; exact Hin | exact Hrun | exact Hacc].
  Qed.
End Prep.

Lemma label_eqb_eq a b : label_eqb a b = true -> a = b.
Proof.
  destruct a as [|i|i|js|], b as [|j|j|ks|]; cbn; try discriminate; try reflexivity;
    try (intros H; apply Nat.eqb_eq in H; now subst).
  intros H. f_equal. revert ks H. induction js as [|x js IH]; intros [|y ks] H; cbn in H; try discriminate; [reflexivity|].
  apply andb_true_iff in H as [H1 H2]. apply Nat.eqb_eq in H1. subst. f_equal. now apply IH.
Qed.

Lemma edge_eqb_eq (a b : edge) : edge_eqb a b = true -> a = b.
Proof.
  unfold edge_eqb. destruct a as [l t], b as [l' t']. cbn. intros H. apply andb_true_iff in H as [H1 H2].
  apply label_eqb_eq in H1. apply Nat.eqb_eq in H2. now subst.
Qed.

Section Simplify.
  Variable D : optinfo.
  Notation Acc := (Acc D).

  Lemma remove_at_in {A} (es : list A) : forall idx e,
    In e es -> In e (remove_at idx es) \/ nth_error es idx = Some e.
  Proof.
    induction es as [|x es IH]; intros idx e Hin; [destruct Hin|].
    destruct idx as [|idx]; cbn [remove_at nth_error].
    - destruct Hin as [->|Hin]; [now right | now left].
    - destruct Hin as [->|Hin]; [left; now left|]. destruct (IH idx e Hin) as [H|H]; [left; now right | now right].
  Qed.

  Lemma absorb_theirs theirs : forall mine e, In e theirs -> In e (absorb mine theirs).
  Proof.
    unfold absorb. induction theirs as [|x theirs IH]; intros mine e Hin; [destruct Hin|]. cbn [fold_left].
    destruct (absorb_spec theirs (if has_edge mine x then mine else mine ++ [x])) as (_ & _ & Hkeep).
    unfold absorb in Hkeep.
    destruct Hin as [->|Hin]; [|now apply IH].
    apply Hkeep. destruct (has_edge mine e) eqn:Hh; [|apply in_or_app; right; now left].
    unfold has_edge in Hh. apply existsb_exists in Hh as (y & Hy & Heq).
    apply edge_eqb_eq in Heq. now subst.
  Qed.

  Variable s : nat.

  (** what the loop knows about the targets already merged into [s] *)
  Definition exp_inv (g : graph) (expanded : list nat) : Prop :=
    forall n, In n expanded ->
      (forall e, In e (edges g n) -> In e (edges g s) \/ (fst e = LEps /\ In (snd e) expanded)) /\
      (terminal g n = true -> terminal g s = true).

  (** under that invariant a run from a merged target is a run from [s] *)
  Lemma merged_run g expanded :
    exp_inv g expanded ->
    forall n args ro bs, Acc g n args ro bs -> In n expanded -> Acc g s args ro bs.
  Proof.
    intros Hinv n args ro bs H.
    induction H as [n a r He Ht | n a r l t rem ro' b b' Hedge Hrun Hrest IH]; intros Hn.
    - apply AccEnd; [assumption|]. now apply (proj2 (Hinv n Hn)).
    - destruct (proj1 (Hinv n Hn) (l, t) Hedge) as [Hin|[Hl Ht]].
      + eapply AccStep; eauto.
      + cbn in Hl, Ht. subst l. cbn in Hrun. injection Hrun as <- <- <-. cbn [List.app].
        apply acc_strip. now apply IH.
  Qed.

  Theorem simplify_self_same_runs fuel : forall g expanded g',
    s < nstates g -> wft g -> exp_inv g expanded ->
    simplify_self fuel g s expanded = Some g' -> same_runs D g g'.
  Proof.
    induction fuel as [|f IH]; intros g expanded g' Hs Hwt Hinv; cbn [simplify_self]; [discriminate|].
    destruct (first_eps (edges g s)) as [[idx next]|] eqn:Hfe.
    2:{ intros [= <-]. apply same_runs_refl. }
    destruct (first_eps_spec _ _ _ Hfe) as (Hnth & _ & Hsub).
    set (g1 := set_edges g s (remove_at idx (edges g s))).
    assert (Hlt : (s <? nstates g) = true) by (now apply Nat.ltb_lt).
    assert (He1 : edges g1 s = remove_at idx (edges g s)).
    { unfold g1. now rewrite edges_set_edges, Nat.eqb_refl, Hlt. }
    assert (He1o : forall t, t <> s -> edges g1 t = edges g t).
    { intros t Ht. unfold g1. rewrite edges_set_edges. destruct (Nat.eqb_spec s t); [congruence | reflexivity]. }
    assert (Hn1 : nstates g1 = nstates g) by (unfold g1; apply nstates_set_edges).
    assert (Hwt1 : wft g1) by (unfold g1; now apply wft_set_edges).
    assert (Hkeep : forall x e, In e (edges g x) -> In e (edges g1 x) \/ (x = s /\ e = (LEps, next))).
    { intros x e Hin. destruct (Nat.eq_dec x s) as [->|Hx].
      - rewrite He1. destruct (remove_at_in _ idx e Hin) as [H|H]; [now left|]. right. rewrite Hnth in H. now injection H as <-.
      - left. now rewrite He1o. }
    assert (Hback : forall x e, In e (edges g1 x) -> In e (edges g x)).
    { intros x e Hin. destruct (Nat.eq_dec x s) as [->|Hx]; [rewrite He1 in Hin; now apply Hsub | now rewrite He1o in Hin]. }
    destruct (mem_nat next expanded) eqn:Hm.
    - (* the target was already merged: the shortcut is dropped *)
      assert (Hne : In next expanded) by (now apply mem_nat_iff).
      assert (Hinv1 : exp_inv g1 expanded).
      { intros n Hn. destruct (Hinv n Hn) as [Ha Hb]. split; [|exact Hb].
        intros e He. apply Hback in He. destruct (Ha e He) as [Hin|Hr]; [|now right].
        destruct (Hkeep s e Hin) as [H|[_ ->]]; [now left | right; split; [reflexivity | exact Hne]]. }
      intros Hr. eapply same_runs_trans; [|eapply (IH g1 expanded g'); [lia | exact Hwt1 | exact Hinv1 | exact Hr]].
      intros x args ro bs. split; apply runs_transfer.
      + intros x0 Ht a r He. now apply AccEnd.
      + intros x0 l t Hin a r rem ro' b bs' Hrun Hacc.
        destruct (Hkeep x0 (l, t) Hin) as [H|[-> Heq]]; [eapply AccStep; eauto|].
        injection Heq as -> ->. cbn in Hrun. injection Hrun as <- <- <-. cbn [List.app].
        apply acc_strip. exact (merged_run g1 expanded Hinv1 next _ _ _ Hacc Hne).
      + intros x0 Ht a r He. now apply AccEnd.
      + intros x0 l t Hin a r rem ro' b bs' Hrun Hacc. eapply AccStep; [apply Hback; exact Hin | exact Hrun | exact Hacc].
    - (* the target is merged into s *)
      set (g2 := set_edges g1 s (absorb (edges g1 s) (edges g1 next))).
      set (g3 := if terminal g2 next then set_terminal g2 s else g2).
      assert (Hlt1 : (s <? nstates g1) = true) by (rewrite Hn1; exact Hlt).
      assert (He2 : edges g2 s = absorb (edges g1 s) (edges g1 next)).
      { unfold g2. now rewrite edges_set_edges, Nat.eqb_refl, Hlt1. }
      assert (He2o : forall t, t <> s -> edges g2 t = edges g t).
      { intros t Ht. unfold g2. rewrite edges_set_edges. destruct (Nat.eqb_spec s t); [congruence | now apply He1o]. }
      assert (He3 : forall t, edges g3 t = edges g2 t) by (intros t; unfold g3; destruct (terminal g2 next); reflexivity).
      assert (Hn3 : nstates g3 = nstates g).
      { unfold g3. destruct (terminal g2 next); [rewrite nstates_set_terminal|]; unfold g2; now rewrite nstates_set_edges. }
      assert (Hwt3 : wft g3).
      { unfold g3. destruct (terminal g2 next); [apply wft_set_terminal|]; unfold g2; now apply wft_set_edges. }
      destruct (absorb_spec (edges g1 next) (edges g1 s)) as (Ha1 & _ & Ha3).
      assert (Hterm3 : forall t, terminal g3 t = true <-> (terminal g t = true \/ (t = s /\ terminal g next = true))).
      { intros t. unfold g3. change (terminal g2 next) with (terminal g next).
        destruct (terminal g next) eqn:Htn.
        - unfold set_terminal, terminal. cbn [g_term]. change (g_term g2) with (g_term g).
          destruct (Nat.eq_dec t s) as [->|Hts].
          + split; [intros _; right; auto|]. intros _. rewrite nth_set_nth_same; [reflexivity|].
            unfold wft in Hwt. lia.
          + rewrite nth_set_nth_other by congruence. split; [now left | intros [H|[H _]]; [assumption | congruence]].
        - split; [now left | intros [H|[_ H]]; [assumption | discriminate]]. }
      assert (Hinv3 : exp_inv g3 (next :: expanded)).
      { intros n [<-|Hn].
        - split.
          + intros e He. left. rewrite He3, He2. rewrite He3 in He.
            destruct (Nat.eq_dec next s) as [->|Hns]; [now rewrite He2 in He|].
            rewrite He2o in He by assumption. apply absorb_theirs. now rewrite He1o.
          + intros Ht. apply Hterm3. apply Hterm3 in Ht as [Ht|[-> Ht]]; [right; auto | right; auto].
        - destruct (Hinv n Hn) as [Ha Hb]. split.
          + intros e He. rewrite He3 in He.
            assert (Heg : In e (edges g n) \/ In e (edges g3 s)).
            { destruct (Nat.eq_dec n s) as [->|Hnn]; [right; now rewrite He3 | left; now rewrite He2o in He]. }
            destruct Heg as [Heg|Heg]; [|now left].
            destruct (Ha e Heg) as [Hin|[Hl Ht]]; [|right; split; [assumption | now right]].
            destruct (Hkeep s e Hin) as [H|[_ ->]].
            * left. rewrite He3, He2. now apply Ha3.
            * right. split; [reflexivity | now left].
          + intros Ht. apply Hterm3. apply Hterm3 in Ht as [Ht|[-> Ht]]; [left; now apply Hb | right; auto]. }
      intros Hr. eapply same_runs_trans; [|eapply (IH g3 (next :: expanded) g'); [lia | exact Hwt3 | exact Hinv3 | exact Hr]].
      intros x args ro bs. split; apply runs_transfer.
      + (* acceptance in g is acceptance in g3 *)
        intros x0 Ht a r He. apply AccEnd; [assumption|]. apply Hterm3. now left.
      + intros x0 l t Hin a r rem ro' b bs' Hrun Hacc.
        destruct (Hkeep x0 (l, t) Hin) as [H|[-> Heq]].
        * eapply AccStep; [|exact Hrun|exact Hacc]. rewrite He3.
          destruct (Nat.eq_dec x0 s) as [->|Hx]; [rewrite He2; now apply Ha3 | rewrite He2o by assumption; now apply Hback].
        * (* the removed shortcut: what next could do, s can do now *)
          injection Heq as -> ->. cbn in Hrun. injection Hrun as <- <- <-. cbn [List.app].
          apply acc_strip. exact (merged_run g3 (next :: expanded) Hinv3 next _ _ _ Hacc (or_introl eq_refl)).
      + (* acceptance in g3 comes from g *)
        intros x0 Ht a r He. apply Hterm3 in Ht as [Ht|[-> Ht]]; [now apply AccEnd|].
        apply acc_eps with (n := next); [eapply nth_error_In; exact Hnth|]. now apply AccEnd.
      + intros x0 l t Hin a r rem ro' b bs' Hrun Hacc. rewrite He3 in Hin.
        destruct (Nat.eq_dec x0 s) as [->|Hx].
        * rewrite He2 in Hin. destruct (Ha1 _ Hin) as [H|H].
          -- eapply AccStep; [apply Hback; exact H | exact Hrun | exact Hacc].
          -- (* a transition taken over from next *)
             apply acc_eps with (n := next); [eapply nth_error_In; exact Hnth|].
             apply acc_strip in Hacc.
             apply acc_strip. eapply AccStep; [apply Hback; exact H | rewrite strip_idem; exact Hrun | apply acc_strip; exact Hacc].
        * rewrite He2o in Hin by assumption. eapply AccStep; eauto.
  Qed.
End Simplify.

Section Prepare.
  Variable D : optinfo.

  Lemma simplify_self_wft fuel s : forall g expanded g',
    wft g -> simplify_self fuel g s expanded = Some g' -> wft g'.
  Proof.
    induction fuel as [|f IH]; intros g expanded g' Hw; cbn [simplify_self]; [discriminate|].
    destruct (first_eps (edges g s)) as [[idx next]|]; [|now intros [= <-]].
    destruct (mem_nat next expanded).
    - apply IH. now apply wft_set_edges.
    - apply IH. destruct (terminal _ next); [apply wft_set_terminal|]; apply wft_set_edges, wft_set_edges; assumption.
  Qed.

  (** the depth-first traversal: every state it simplifies keeps the runs *)
  Theorem simplify_same_runs : forall fuel g s visited g' v',
    wfg g -> wft g -> s < nstates g ->
    simplify fuel g s visited = Some (g', v') ->
    same_runs D g g' /\ wfg g' /\ wft g' /\ nstates g' = nstates g.
  Proof.
    induction fuel as [|f IH]; intros g s visited g' v' Hw Hwt Hs; cbn [simplify]; [discriminate|].
    destruct (mem_nat s visited).
    - intros [= <- <-]. split; [apply same_runs_refl|]. repeat split; auto.
    - assert (Hch : forall es g0 v0 g1 v1,
                 wfg g0 -> wft g0 -> (forall l t, In (l, t) es -> t < nstates g0) ->
                 children (simplify f) es g0 v0 = Some (g1, v1) ->
                 same_runs D g0 g1 /\ wfg g1 /\ wft g1 /\ nstates g1 = nstates g0).
      { induction es as [|[l t] es IHes]; intros g0 v0 g1 v1 Hw0 Hwt0 Hes; cbn [children].
        - intros [= <- <-]. split; [apply same_runs_refl|]. repeat split; auto.
        - destruct (simplify f g0 t v0) as [[g2 v2]|] eqn:Hsim; [|discriminate].
          assert (Ht : t < nstates g0) by (apply (Hes l t); now left).
          destruct (IH _ _ _ _ _ Hw0 Hwt0 Ht Hsim) as (R1 & W1 & T1 & N1).
          intros Hc. destruct (IHes g2 v2 g1 v1 W1 T1) as (R2 & W2 & T2 & N2); [|exact Hc|].
          + intros l' t' Hin. rewrite N1. apply (Hes l' t'). now right.
          + split; [eapply same_runs_trans; eauto|]. repeat split; auto. lia. }
      destruct (children (simplify f) (edges g s) g (s :: visited)) as [[g1 v1]|] eqn:Hc; [|discriminate].
      destruct (Hch _ _ _ _ _ Hw Hwt (fun l t Hin => Hw s l t Hin) Hc) as (R1 & W1 & T1 & N1).
      destruct (simplify_self (self_fuel g1) g1 s []) as [g2|] eqn:Hself; [|discriminate].
      intros [= <- <-].
      assert (Hs1 : s < nstates g1) by lia.
      destruct (simplify_self_ok g1 s W1 Hs1) as (g2' & Hr & W2 & N2). rewrite Hself in Hr. injection Hr as <-.
      split; [|split; [exact W2 | split; [eapply simplify_self_wft; eauto | lia]]].
      eapply same_runs_trans; [exact R1|].
      apply (simplify_self_same_runs D s (self_fuel g1) g1 [] g2 Hs1 T1); [intros n [] | exact Hself].
  Qed.

  (** Prepare keeps exactly the accepting runs of the automaton it is given *)
  Theorem prepare_same_runs start g g' :
    wfg g -> wft g -> start < nstates g -> prepare start g = Some g' -> same_runs D g g'.
  Proof.
    intros Hw Hwt Hs. unfold prepare.
    destruct (simplify (nstates g + 1) g start []) as [[g1 v1]|] eqn:Hsim; [|discriminate].
    intros [= <-]. destruct (simplify_same_runs _ _ _ _ _ _ Hw Hwt Hs Hsim) as (R1 & _).
    eapply same_runs_trans; [exact R1 | apply sort_same_runs].
  Qed.
End Prepare.
