(** C16 over the whole tree: replacing, in EVERY command of an application (the root and every
    sub-command at any depth), a missing spec by the spec "[OPTIONS] ARG1 ARG2 ..." synthesised from that
    command's own declarations changes nothing: Run gives the same result for every argument vector. *)
From MowCli Require Import Base Values Flow Cmd DeclProofs CompileProofs.

Section Norm.
  Variable parse_float : str -> option str.
  Variable getenv : str -> str.

  (** the spec a command is given when it has none: synthesised from its own declarations *)
  Definition norm_spec (ds : list decl) (sp : str) : str :=
    match sp with
    | [] => match declare parse_float getenv ds [] [] with
            | inl (opts, args) => default_spec opts args
            | inr _ => []
            end
    | _ => sp
    end.

  Fixpoint norm_cmd (c : cmd) : cmd :=
    match c with
    | Cmd n d ld h sp pol ds b act af subs =>
      Cmd n d ld h (norm_spec ds sp) pol ds b act af (map norm_cmd subs)
    end.

  Lemma do_init_norm ds sp : do_init parse_float getenv ds (norm_spec ds sp) = do_init parse_float getenv ds sp.
  Proof.
    unfold norm_spec. destruct sp as [|ch sp]; [|reflexivity].
    destruct (declare parse_float getenv ds [] []) as [[opts args]|e] eqn:Hd; [|reflexivity].
    symmetry. now apply do_init_default.
  Qed.

  Lemma norm_fields c :
    c_namefield (norm_cmd c) = c_namefield c /\ c_desc (norm_cmd c) = c_desc c /\ c_longdesc (norm_cmd c) = c_longdesc c /\
    c_hidden (norm_cmd c) = c_hidden c /\ c_policy (norm_cmd c) = c_policy c /\ c_decls (norm_cmd c) = c_decls c /\
    c_before (norm_cmd c) = c_before c /\ c_action (norm_cmd c) = c_action c /\ c_after (norm_cmd c) = c_after c /\
    c_spec (norm_cmd c) = norm_spec (c_decls c) (c_spec c) /\ c_subs (norm_cmd c) = map norm_cmd (c_subs c).
  Proof. destruct c. cbn. repeat split. Qed.

  Lemma is_alias_norm c a : is_alias (norm_cmd c) a = is_alias c a.
  Proof. unfold is_alias, c_aliases. now rewrite (proj1 (norm_fields c)). Qed.

  Lemma c_name_norm r c : c_name r (norm_cmd c) = c_name r c.
  Proof. unfold c_name, c_aliases. now rewrite (proj1 (norm_fields c)). Qed.

  Lemma effective_policy_norm p c : effective_policy p (norm_cmd c) = effective_policy p c.
  Proof. unfold effective_policy. destruct c. reflexivity. Qed.

  Lemma existsb_alias_norm subs a :
    existsb (fun s => is_alias s a) (map norm_cmd subs) = existsb (fun s => is_alias s a) subs.
  Proof. induction subs as [|s subs IHs]; cbn [map existsb]; [reflexivity|]. now rewrite is_alias_norm, IHs. Qed.

  Lemma opts_and_args_norm subs args : opts_and_args (map norm_cmd subs) args = opts_and_args subs args.
  Proof.
    induction args as [|a args IH]; cbn [opts_and_args]; [reflexivity|].
    now rewrite IH, existsb_alias_norm.
  Qed.

  Lemma init_children_norm subs :
    init_children parse_float getenv (map norm_cmd subs) = init_children parse_float getenv subs.
  Proof.
    induction subs as [|s subs IH]; cbn [map init_children]; [reflexivity|].
    destruct (norm_fields s) as (_ & _ & _ & _ & _ & Hd & _ & _ & _ & Hs & _).
    rewrite Hs, Hd, do_init_norm, IH. reflexivity.
  Qed.

  Lemma filter_visible_norm subs :
    filter (fun s => negb (c_hidden s)) (map norm_cmd subs) = map norm_cmd (filter (fun s => negb (c_hidden s)) subs).
  Proof.
    induction subs as [|s subs IH]; cbn [map filter]; [reflexivity|].
    destruct (norm_fields s) as (_ & _ & _ & Hh & _). rewrite Hh. destruct (c_hidden s); cbn [negb map]; now rewrite IH.
  Qed.

  Lemma help_table_norm path i vis : help_table path i (map norm_cmd vis) = help_table path i vis.
  Proof.
    unfold help_table. f_equal. f_equal.
    destruct vis as [|v vis]; [reflexivity|]. cbn [map]. f_equal. f_equal.
    set (l := v :: vis). change (norm_cmd v :: map norm_cmd vis) with (map norm_cmd l). clearbody l.
    induction l as [|s l IH]; cbn [map flat_map]; [reflexivity|].
    destruct (norm_fields s) as (Hn & Hd & _).
    assert (Ha : c_aliases (norm_cmd s) = c_aliases s) by (unfold c_aliases; now rewrite Hn).
    now rewrite Ha, Hd, IH.
  Qed.

  Lemma print_help_norm path c i long :
    print_help parse_float getenv path (norm_cmd c) i long = print_help parse_float getenv path c i long.
  Proof.
    unfold print_help.
    destruct (norm_fields c) as (_ & Hd & Hld & _ & _ & _ & _ & _ & _ & _ & Hsubs).
    rewrite Hd, Hld, Hsubs, init_children_norm, filter_visible_norm, help_table_norm.
    destruct (c_subs c); reflexivity.
  Qed.

  (** Cmd.parse of a normalised tree *)
  Theorem parse_cmd_norm c : forall i policy path args levels paths filled err,
    parse_cmd parse_float getenv (norm_cmd c) i policy path args levels paths filled err =
    parse_cmd parse_float getenv c i policy path args levels paths filled err.
  Proof.
    induction c as [n d ld h sp pol ds b act af subs IHsubs] using cmd_rect'.
    intros i policy path args levels paths filled err.
    cbn [norm_cmd]. cbn [parse_cmd c_subs c_before c_after c_action].
    rewrite opts_and_args_norm.
    (* the descent finds the same sub-command and gets the same result *)
    assert (Hdesc : forall arg rest lv ps fl,
               first_some
                 (fun sub =>
                    if is_alias sub arg
                    then Some match do_init parse_float getenv (c_decls sub) (c_spec sub) with
                              | IOk si => parse_cmd parse_float getenv sub si (effective_policy policy sub)
                                                    (path ++ [c_name false sub]) rest lv ps fl err
                              | ISpecErr m p => mkResult (RPanicSpec m p) [] err fl
                              | IDeclPanic m => mkResult (RPanicDecl m) [] err fl
                              | IFuel => mkResult RFuel [] err fl
                              end
                    else None) (map norm_cmd subs)
               = first_some
                   (fun sub =>
                      if is_alias sub arg
                      then Some match do_init parse_float getenv (c_decls sub) (c_spec sub) with
                                | IOk si => parse_cmd parse_float getenv sub si (effective_policy policy sub)
                                                      (path ++ [c_name false sub]) rest lv ps fl err
                                | ISpecErr m p => mkResult (RPanicSpec m p) [] err fl
                                | IDeclPanic m => mkResult (RPanicDecl m) [] err fl
                                | IFuel => mkResult RFuel [] err fl
                                end
                      else None) subs).
    { intros arg rest lv ps fl.
      induction subs as [|s subs' IHs]; [reflexivity|]. cbn [map first_some].
      inversion IHsubs as [|? ? Hps Hrest]; subst.
      rewrite is_alias_norm. destruct (is_alias s arg); [|apply IHs; exact Hrest].
      destruct (norm_fields s) as (_ & _ & _ & _ & _ & Hd & _ & _ & _ & Hs & _).
      rewrite Hs, Hd, do_init_norm, effective_policy_norm, c_name_norm.
      destruct (do_init parse_float getenv (c_decls s) (c_spec s)); try reflexivity.
      now rewrite Hps. }
    pose proof (print_help_norm path (Cmd n d ld h sp pol ds b act af subs) i) as Hph.
    cbn [norm_cmd] in Hph. rewrite !Hph.
    destruct (help_index args) as [hi|].
    - destruct (hi <=? opts_and_args subs args); [reflexivity|].
      destruct (skipn (opts_and_args subs args) args) as [|arg rest]; [reflexivity|]. now rewrite Hdesc.
    - destruct (fsm_parse parse_float i (firstn (opts_and_args subs args) args)) as [o1 a1| | |]; try reflexivity.
      destruct (skipn (opts_and_args subs args) args) as [|arg rest].
      + destruct act; reflexivity.
      + now rewrite Hdesc.
  Qed.

  (** the whole application: the root's missing spec is synthesised from ITS declarations, the version flag
      included ([root_decls]); every sub-command's from its own *)
  Definition norm_app (a : cliapp) : cliapp :=
    match a_root a with
    | Cmd n d ld h sp pol ds b act af subs =>
      mkAppAt (Cmd n d ld h (norm_spec (root_decls a) sp) pol ds b act af (map norm_cmd subs)) (a_version a) (a_version_last a)
    end.

  Theorem run_norm a argv : run parse_float getenv (norm_app a) argv = run parse_float getenv a argv.
  Proof.
    destruct a as [[n d ld h sp pol ds b act af subs] ver last]. unfold norm_app. cbn [a_root a_version a_version_last].
    unfold run. cbn [a_root a_version a_version_last c_spec effective_policy c_policy c_name c_namefield].
    assert (Hrd : root_decls (mkAppAt (Cmd n d ld h (norm_spec (root_decls (mkAppAt (Cmd n d ld h sp pol ds b act af subs) ver last)) sp)
                                           pol ds b act af (map norm_cmd subs)) ver last)
                  = root_decls (mkAppAt (Cmd n d ld h sp pol ds b act af subs) ver last)) by reflexivity.
    rewrite Hrd, do_init_norm.
    destruct (do_init parse_float getenv _ sp) as [i| | |]; try reflexivity.
    pose proof (parse_cmd_norm (Cmd n d ld h sp pol ds b act af subs) i (match pol with Some p => p | None => 1 end) [n] argv [] [] [] []) as Hp.
    cbn [norm_cmd] in Hp.
    rewrite (parse_cmd_spec_irrelevant parse_float getenv n d ld h (norm_spec ds sp)
               (norm_spec (root_decls (mkAppAt (Cmd n d ld h sp pol ds b act af subs) ver last)) sp)) in Hp.
    destruct ver as [[nm text]|]; cbn [a_version]; unfold effective_policy, c_name; cbn [c_policy c_namefield]; rewrite Hp; reflexivity.
  Qed.

End Norm.
