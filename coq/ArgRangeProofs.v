(** Only declared arguments are ever bound: the argument of every binding [(KA k, v)] of an accepting run is the label of an
    argument transition of the automaton, every such label is a leaf [AArg k] of the syntax tree, and the parser
    only builds that leaf from a name the argument table maps to [k] — an index into the declared arguments. With
    this, C15's reading of the argument flags has its converse: a positional token written on the line raises the
    flag of SOME declared argument. *)
From MowCli Require Import Base Lexer Parser Nfa Matchers Apply Values Flow Cmd View ApplyProofs DeclProofs
  GrammarProofs LabelProofs ValueProofs CompileProofs AccountProofs UserProofs.

Section Range.
  Variable D : optinfo.
  Variable n : nat.

  Definition arg_keys_lt (bs : list binding) : Prop := forall k v, In (KA k, v) bs -> k < n.

  Lemma akl_nil : arg_keys_lt [].
  Proof. intros k v []. Qed.

  Lemma akl_app a b : arg_keys_lt a -> arg_keys_lt b -> arg_keys_lt (a ++ b).
  Proof. intros Ha Hb k v H. apply in_app_or in H as [H|H]; eauto. Qed.

  Lemma m_opt_akl o a ro rem ro' bs : m_opt D o a ro = Some (rem, ro', bs) -> arg_keys_lt bs.
  Proof.
    unfold m_opt. set (fb := if oi_fromenv D o then Some (a, ro, @nil binding) else None).
    assert (F : fb = Some (rem, ro', bs) -> arg_keys_lt bs).
    { unfold fb. destruct (oi_fromenv D o); [|discriminate]. intros [= <- <- <-]. apply akl_nil. }
    destruct a as [|a0 a']; [exact F|]. destruct ro; [exact F|].
    destruct (scan D o [] (a0 :: a')) as [[v r]|] eqn:S; [|exact F].
    intros [= <- <- <-]. intros k w [X|[]]. discriminate.
  Qed.

  Lemma try_consume_akl opts : forall ex a rem bs, try_consume D opts ex a = Some (rem, bs) -> arg_keys_lt bs.
  Proof.
    induction opts as [|o opts IH]; intros ex a rem bs; cbn [try_consume]; [discriminate|].
    destruct (mem_nat o ex); [apply IH|].
    destruct (m_opt D o a false) as [[[r ro'] [|b bs0]]|] eqn:M; try apply IH.
    intros [= <- <-]. eapply m_opt_akl; exact M.
  Qed.

  Lemma try_akl opts ex a ro rem bs ex' : try_ D opts ex a ro = Some (rem, bs, ex') -> arg_keys_lt bs.
  Proof.
    unfold try_, try_opts. destruct a as [|a0 a']; [discriminate|]. destruct ro; [discriminate|].
    destruct (try_consume D opts ex (a0 :: a')) as [[r b]|] eqn:T.
    - intros [= <- <- <-]. eapply try_consume_akl; exact T.
    - destruct (try_env D opts ex (a0 :: a')); [|discriminate]. intros [= <- <- <-]. apply akl_nil.
  Qed.

  Lemma group_loop_akl f : forall opts ex a acc rem bs,
    arg_keys_lt acc -> group_loop D f opts ex a acc = Some (rem, bs) -> arg_keys_lt bs.
  Proof.
    induction f as [|f IH]; intros opts ex a acc rem bs Hacc; cbn [group_loop]; [discriminate|].
    destruct (try_ D opts ex a false) as [[[r b] ex']|] eqn:T.
    - apply IH. apply akl_app; [assumption | eapply try_akl; exact T].
    - now intros [= <- <-].
  Qed.

  Lemma m_group_akl opts a ro rem ro' bs : m_group D opts a ro = Some (rem, ro', bs) -> arg_keys_lt bs.
  Proof.
    unfold m_group. destruct (try_ D opts [] a ro) as [[[r b] ex]|] eqn:T; [|discriminate].
    destruct (group_loop D (group_fuel opts a) opts ex r b) as [[r' b']|] eqn:G; [|discriminate].
    intros [= <- <- <-]. eapply group_loop_akl; [eapply try_akl; exact T | exact G].
  Qed.

  (** the labels of an automaton whose argument transitions name declared arguments *)
  Definition arg_lt (l : label) : Prop := match l with LArg i => i < n | _ => True end.

  Lemma run_matcher_akl l a ro rem ro' bs : arg_lt l -> run_matcher D l a ro = Some (rem, ro', bs) -> arg_keys_lt bs.
  Proof.
    destruct l as [|i|o|js|]; cbn [run_matcher arg_lt]; intros Hl.
    - intros [= <- <- <-]. apply akl_nil.
    - unfold m_arg. destruct a as [|a0 a']; [discriminate|].
      destruct (negb ro && dashed a0 && negb (str_eqb a0 s_dash)); [discriminate|].
      intros [= <- <- <-]. intros k v [[= <- <-]|[]]. exact Hl.
    - apply m_opt_akl.
    - apply m_group_akl.
    - unfold m_dd. intros [= <- <- <-]. apply akl_nil.
  Qed.

  Theorem acc_akl g : labs arg_lt g -> forall s a ro bs, Acc D g s a ro bs -> arg_keys_lt bs.
  Proof.
    intros Hg s a ro bs H. induction H as [s a ro _ _ | s a ro l t rem ro' bs bs' He Hm _ IH]; [apply akl_nil|].
    apply akl_app; [eapply run_matcher_akl; [exact (Hg s l t He) | exact Hm] | exact IH].
  Qed.
End Range.

(** the leaves the grammar derives from a table of [n] arguments *)
Section Leaves.
  Variable lookup_opt lookup_arg : str -> option nat.
  Variable n nopts : nat.
  Hypothesis Hla : forall name i, lookup_arg name = Some i -> i < n.

  Lemma grammar_leaves :
    (forall ro l s ro', GSeq lookup_opt lookup_arg ro l s ro' -> leaves_seq (arg_lt n) nopts s) /\
    (forall ro l c ro', GChoice lookup_opt lookup_arg ro l c ro' -> leaves_choice (arg_lt n) nopts c) /\
    (forall ro l a ro', GRatom lookup_opt lookup_arg ro l a ro' -> leaves_ratom (arg_lt n) nopts a) /\
    (forall ro l a ro', GAtom lookup_opt lookup_arg ro l a ro' -> leaves_atom (arg_lt n) nopts a).
  Proof.
    apply gram_mutind; intros; cbn; auto.
    eapply Hla; eassumption.
  Qed.
End Leaves.

Lemma lookup_name_lt cs name i : lookup_name cs name = Some i -> i < length cs.
Proof.
  intros H. destruct (lookup_sound cs name i H) as (c & Hc & _).
  apply nth_error_Some. congruence.
Qed.

(** a compiled command only has argument transitions for declared arguments *)
Theorem compile_arg_labels opts args spec i :
  compile opts args spec = IOk i -> labs (arg_lt (length args)) (i_graph i).
Proof.
  intros Hc. unfold compile in Hc.
  destruct (tokenize spec) as [toks|m p|] eqn:Hl; try discriminate.
  destruct (parse_tokens (lookup_name opts) (lookup_name args) (length spec) toks) as [e|m p|] eqn:Hp; try discriminate.
  apply parse_tokens_iff_grammar in Hp as [ro' G].
  pose proof (proj1 (grammar_leaves (lookup_name opts) (lookup_name args) (length args) (length opts)
                       (lookup_name_lt args)) _ _ _ _ G) as HL.
  pose proof (thompson_labs_top (arg_lt (length args)) I (length opts) e HL) as HT.
  destruct (thompson (length opts) e) as [start g]. cbn [snd] in HT.
  destruct (prepare start g) as [g'|] eqn:Hpr; [|discriminate]. injection Hc as <-. cbn [i_graph].
  eapply prepare_labs; eauto.
Qed.

(** * Command level: a positional written on the line raises the flag of a declared argument *)
Section UserArgs.
  Variable parse_float : str -> option str.
  Variable getenv : str -> str.

  Lemma fill_length cs : forall i mk bs cs', fill parse_float cs i mk bs = Some cs' -> length cs' = length cs.
  Proof.
    induction cs as [|c cs IH]; intros i mk bs cs' Hf; cbn [fill] in Hf.
    - now injection Hf as <-.
    - destruct (fill_one parse_float c (values_for (mk i) bs)) as [c1|]; [|discriminate].
      destruct (fill parse_float cs (S i) mk bs) as [cs1|] eqn:H2; [|discriminate].
      injection Hf as <-. cbn [length]. f_equal. eapply IH; exact H2.
  Qed.

  Lemma b_poss_in bs : b_poss bs <> [] -> exists k v, In (KA k, v) bs.
  Proof.
    induction bs as [|[[o|k] v] bs IH]; cbn; [congruence | |].
    - intros H. destruct (IH H) as (k & w & Hin). exists k, w. now right.
    - intros _. exists k, v. now left.
  Qed.

  Lemma in_values_for k v bs : In (k, v) bs -> values_for k bs <> [].
  Proof.
    intros Hin. unfold values_for.
    assert (X : In v (map snd (filter (fun b : binding => key_eqb (fst b) k) bs))).
    { apply in_map_iff. exists (k, v). split; [reflexivity|]. apply filter_In. split; [exact Hin|].
      cbn [fst]. destruct k as [x|x]; cbn; apply Nat.eqb_refl. }
    intros E. rewrite E in X. destruct X.
  Qed.

  (** every string bound by an accepted line is bound to a declared argument: its index is below the number of
      declared arguments, which is the number of argument containers the parse returns *)
  Theorem bound_arguments_are_declared ds spec i argv opts' args' bs k v :
    do_init parse_float getenv ds spec = IOk i ->
    fsm_parse parse_float i argv = PAccept opts' args' ->
    fsm_apply (optinfo_of (i_opts i)) (i_graph i) (i_start i) argv = AOk bs ->
    In (KA k, v) bs -> k < length args'.
  Proof.
    intros Hi Hp Hrun Hin.
    assert (Hlen : length args' = length (i_args i)).
    { unfold fsm_parse in Hp. rewrite Hrun in Hp.
      destruct (fill parse_float (i_opts i) 0 KO bs) as [o1|]; [|discriminate].
      destruct (fill parse_float (i_args i) 0 KA bs) as [a1|] eqn:H2; [|discriminate].
      injection Hp as _ <-. eapply fill_length; exact H2. }
    rewrite Hlen.
    unfold do_init in Hi. destruct (declare parse_float getenv ds [] []) as [[opts args]|m]; [|discriminate].
    destruct (compile_total opts args (match spec with [] => default_spec opts args | _ => spec end)) as [_ Hc].
    destruct (Hc i Hi) as (_ & _ & Eo & Ea). rewrite Ea.
    pose proof (compile_arg_labels opts args _ i Hi) as HL.
    apply fsm_apply_sound in Hrun.
    exact (acc_akl _ (length args) (i_graph i) HL _ _ _ _ Hrun k v Hin).
  Qed.

  (** the converse of [UserProofs.setbyuser_arg_needs_a_positional]: on a cleanly read line accepted by a command
      without a spec-level "--", a positional token written on the line raises the flag of some declared argument *)
  Theorem positional_raises_an_arg_flag ds spec i argv opts' args' u :
    do_init parse_float getenv ds spec = IOk i ->
    sane (optinfo_of (i_opts i)) = true -> no_dd_graph (i_graph i) = true ->
    view (optinfo_of (i_opts i)) argv = Some u ->
    fsm_parse parse_float i argv = PAccept opts' args' ->
    poss u <> [] -> exists k c, nth_error args' k = Some c /\ ct_user c = true.
  Proof.
    intros Hi Hsane Hnd Hv Hp Hne.
    destruct (setbyuser_iff parse_float getenv ds spec i argv opts' args' Hi Hp) as (bs & Hrun & _ & Ha).
    assert (Hpos : b_poss bs = poss u).
    { pose proof Hi as Hi'. unfold do_init in Hi'.
      destruct (declare parse_float getenv ds [] []) as [[opts args]|m]; [|discriminate].
      destruct (compile_total opts args (match spec with [] => default_spec opts args | _ => spec end)) as [_ Hc].
      destruct (Hc i Hi') as (_ & _ & Eo & _). rewrite Eo in *.
      now destruct (accepted_values_are_the_written_values opts args _ i argv u bs Hi' Hsane Hnd Hv Hrun) as [_ P]. }
    rewrite <- Hpos in Hne. destruct (b_poss_in bs Hne) as (k & v & Hin).
    pose proof (bound_arguments_are_declared ds spec i argv opts' args' bs k v Hi Hp Hrun Hin) as Hk.
    destruct (nth_error args' k) as [c|] eqn:Hn; [|apply nth_error_None in Hn; lia].
    exists k, c. split; [exact Hn|]. apply (Ha k c Hn). now apply (in_values_for (KA k) v).
  Qed.

  (** together: some argument's flag is up iff the line has a positional token *)
  Corollary some_arg_flag_iff_a_positional ds spec i argv opts' args' u :
    do_init parse_float getenv ds spec = IOk i ->
    sane (optinfo_of (i_opts i)) = true -> no_dd_graph (i_graph i) = true ->
    view (optinfo_of (i_opts i)) argv = Some u ->
    fsm_parse parse_float i argv = PAccept opts' args' ->
    ((exists k c, nth_error args' k = Some c /\ ct_user c = true) <-> poss u <> []).
  Proof.
    intros Hi Hsane Hnd Hv Hp. split.
    - intros (k & c & Hk & Hu).
      destruct (setbyuser_arg_needs_a_positional parse_float getenv ds spec i argv opts' args' u Hi Hsane Hnd Hv Hp k c Hk Hu)
        as [v Hin]. intros E. rewrite E in Hin. destruct Hin.
    - intros Hne. exact (positional_raises_an_arg_flag ds spec i argv opts' args' u Hi Hsane Hnd Hv Hp Hne).
  Qed.
End UserArgs.

(** * C02: every binding of an accepted line has a variable to go to *)
From MowCli Require Import SortProofs NamedProofs.

Section Containers.
  Variable parse_float : str -> option str.
  Variable getenv : str -> str.

  (** nothing is bound to a variable that does not exist: the option of a binding [(KO k, v)] is the k-th option
      container the parse returns, the argument of a binding [(KA k, v)] the k-th argument container *)
  Theorem every_binding_has_a_container ds spec i argv opts' args' bs key v :
    do_init parse_float getenv ds spec = IOk i ->
    fsm_parse parse_float i argv = PAccept opts' args' ->
    fsm_apply (optinfo_of (i_opts i)) (i_graph i) (i_start i) argv = AOk bs ->
    In (key, v) bs ->
    match key with
    | KO k => exists c, nth_error opts' k = Some c
    | KA k => exists c, nth_error args' k = Some c
    end.
  Proof.
    intros Hi Hp Hrun Hin. destruct key as [k|k].
    - assert (Hlen : length opts' = length (i_opts i)).
      { unfold fsm_parse in Hp. rewrite Hrun in Hp.
        destruct (fill parse_float (i_opts i) 0 KO bs) as [o1|] eqn:H1; [|discriminate].
        destruct (fill parse_float (i_args i) 0 KA bs) as [a1|]; [|discriminate].
        injection Hp as <- _. eapply fill_length; exact H1. }
      destruct (bound_options_are_bindable (i_opts i) _ _ _ _ k v Hrun Hin) as (c & Hc & _).
      assert (Hk : k < length opts') by (rewrite Hlen; apply nth_error_Some; congruence).
      destruct (nth_error opts' k) as [c'|] eqn:Hn; [eauto | apply nth_error_None in Hn; lia].
    - pose proof (bound_arguments_are_declared parse_float getenv ds spec i argv opts' args' bs k v Hi Hp Hrun Hin) as Hk.
      destruct (nth_error args' k) as [c'|] eqn:Hn; [eauto | apply nth_error_None in Hn; lia].
  Qed.
End Containers.
