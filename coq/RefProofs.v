(** T4b: the executable reference matcher [RefSem.r_match] (continuation-passing, with a progress
    guard on repetitions), which the test oracle runs, decides the declarative symbol-level language
    [SymProofs.VAccepts] for specs without "--", in its greedy-with-environment mode and without a
    target. Together with [SymProofs.compile_accepts_iff_symbols] this closes the loop
      compiled command accepts  <->  VAccepts  <->  r_match says Yes
    on clean command lines, so the oracle is not part of the trusted base there. *)
From MowCli Require Import Base Parser Nfa Matchers View RefSem NfaProofs SymProofs.

Local Notation st2 p := (mkRS (fst p) (snd p) None).

Definition pst := (list sym * bool)%type.

Lemma vor_yes a b : vor a b = Yes <-> a = Yes \/ b tt = Yes.
Proof. destruct a; cbn; [tauto | intuition congruence |]. destruct (b tt); intuition congruence. Qed.

Section Ref.
  Variable RD : rdecl.
  Variable nopts : nat.

  (** * The leaves as partial functions on (symbols, options-ended) *)
  Definition pstrip (p : pst) : pst := match fst p with DDTok :: u' => (u', true) | _ => p end.

  Lemma rstrip_st2 p : rstrip (st2 p) = st2 (pstrip p).
  Proof. unfold rstrip, pstrip. destruct p as [[|[o v s|t| |t|t] u] ro]; reflexivity. Qed.

  Definition p_arg (p : pst) : option pst :=
    let q := pstrip p in match fst q with P t :: u' => Some (u', snd q) | _ => None end.

  Definition p_opt (o : nat) (p : pst) : option pst :=
    let q := pstrip p in
    let fb := if rd_env RD o then Some q else None in
    if snd q then fb
    else match take_occ o (fst q) with Some (v, u') => Some (u', false) | None => fb end.

  Definition p_grp (js : list nat) (p : pst) : option pst :=
    let q := pstrip p in
    if snd q then None else
    match fst q with
    | [] => None
    | _ => match greedy_take (S (length (fst q))) js (fst q) None false with
           | Some (u', _, true) => Some (u', false)
           | Some (_, _, false) => if existsb (rd_env RD) js then Some q else None
           | None => None
           end
    end.

  Notation md := (Greedy true).

  Lemma k_arg_p i p k : k_arg i (st2 p) k = match p_arg p with Some q => k (st2 q) | None => No end.
  Proof.
    unfold k_arg, p_arg. rewrite rstrip_st2. destruct (pstrip p) as [u0 ro]. cbn [rs_u rs_ro rs_t fst snd].
    destruct u0 as [|[o v s|t| |t|t] u]; reflexivity.
  Qed.

  Lemma k_opt_p o p k : k_opt RD o (st2 p) k = match p_opt o p with Some q => k (st2 q) | None => No end.
  Proof.
    unfold k_opt, p_opt. rewrite rstrip_st2. destruct (pstrip p) as [u ro]. cbn [rs_u rs_ro rs_t fst snd].
    destruct ro; [destruct (rd_env RD o); reflexivity|].
    destruct (take_occ o u) as [[v u']|]; [reflexivity|]. destruct (rd_env RD o); reflexivity.
  Qed.

  Lemma greedy_take_none fuel js : forall u tk, exists u' tk', greedy_take fuel js u None tk = Some (u', None, tk').
  Proof.
    induction fuel as [|f IH]; intros u tk; cbn [greedy_take]; [eauto|].
    destruct (first_some _ js) as [[[o v] u']|]; [|eauto]. cbn [bind]. apply IH.
  Qed.

  Lemma k_group_p js p k : k_group RD md js (st2 p) k = match p_grp js p with Some q => k (st2 q) | None => No end.
  Proof.
    unfold k_group, p_grp. rewrite rstrip_st2. destruct (pstrip p) as [u0 ro]. cbn [rs_u rs_ro rs_t fst snd].
    destruct ro; [reflexivity|].
    destruct u0 as [|s u]; [reflexivity|].
    destruct (greedy_take_none (S (length (s :: u))) js (s :: u) false) as (u' & tk' & E). rewrite E.
    destruct tk'; [reflexivity|]. cbn [andb]. destruct (existsb (rd_env RD) js); reflexivity.
  Qed.

  (** * The spec as a relation on (symbols, options-ended) *)
  Inductive PS : seq -> pst -> pst -> Prop :=
  | PSNil p : PS SNil p p
  | PSCons ch s p p1 p2 : PC ch p p1 -> PS s p1 p2 -> PS (SCons ch s) p p2
  with PC : choice -> pst -> pst -> Prop :=
  | PCOne a p q : PR a p q -> PC (COne a) p q
  | PCAltL a ch p q : PR a p q -> PC (CAlt a ch) p q
  | PCAltR a ch p q : PC ch p q -> PC (CAlt a ch) p q
  with PR : ratom -> pst -> pst -> Prop :=
  | PROnce a rep p q : PA a p q -> PR (RAtom a rep) p q
  | PRMore a p p1 q : PA a p p1 -> PR (RAtom a true) p1 q -> PR (RAtom a true) p q
  with PA : atom -> pst -> pst -> Prop :=
  | PAArg i p q : p_arg p = Some q -> PA (AArg i) p q
  | PAOptions p q : p_grp (List.seq 0 nopts) p = Some q -> PA AOptions p q
  | PAOpt o p q : p_opt o p = Some q -> PA (AOpt o) p q
  | PAGroup js p q : p_grp js p = Some q -> PA (AGroup js) p q
  | PAPar s p q : PS s p q -> PA (APar s) p q
  | PASqSome s p q : PS s p q -> PA (ASq s) p q
  | PASqNone s p : PA (ASq s) p p.

  Scheme PS_mut := Induction for PS Sort Prop
  with PC_mut := Induction for PC Sort Prop
  with PR_mut := Induction for PR Sort Prop
  with PA_mut := Induction for PA Sort Prop.
  Combined Scheme pden_mutind from PS_mut, PC_mut, PR_mut, PA_mut.

  (** the measure that [progress] decreases *)
  Definition mu (p : pst) : nat := length (fst p) + (if snd p then 0 else 1).
  Definition prog (p q : pst) : bool := progress (st2 p) (st2 q).

  Lemma take_occ_len o u v u' : take_occ o u = Some (v, u') -> length u' < length u.
  Proof.
    revert v u'. induction u as [|s u IH]; intros v u'; cbn [take_occ]; [discriminate|].
    destruct s as [o' w src|t| |t|t]; try discriminate.
    destruct (Nat.eqb o o'); [intros [= <- <-]; cbn; lia|].
    destruct (take_occ o u) as [[v' u'']|]; [|discriminate]. intros [= <- <-]. specialize (IH v' u'' eq_refl). cbn. lia.
  Qed.

  Lemma greedy_take_len fuel js : forall u tk u' tk', greedy_take fuel js u None tk = Some (u', None, tk') ->
    length u' <= length u /\ (tk' = true -> tk = true \/ length u' < length u).
  Proof.
    induction fuel as [|f IH]; intros u tk u' tk'; cbn [greedy_take].
    - intros [= <- <-]. split; [lia | auto].
    - destruct (first_some _ js) as [[[o v] u1]|] eqn:Ef.
      + cbn [bind]. intros H. destruct (IH _ _ _ _ H) as [L1 L2].
        assert (L : length u1 < length u).
        { clear -Ef. induction js as [|j js IHj]; cbn [first_some] in Ef; [discriminate|].
          destruct (take_occ j u) as [[v' u'']|] eqn:E; [injection Ef as <- <- <-; eapply take_occ_len; eauto | auto]. }
        split; [lia|]. intros _. right. lia.
      + intros [= <- <-]. split; [lia | auto].
  Qed.

  Lemma pstrip_mu p : mu (pstrip p) <= mu p /\ (pstrip p = p \/ mu (pstrip p) < mu p).
  Proof.
    unfold pstrip, mu. destruct p as [[|[o v s|t| |t|t] u] ro]; cbn [fst snd length]; try (split; [lia | now left]).
    split; [destruct ro; lia | right; destruct ro; lia].
  Qed.

  (** every leaf either leaves the configuration as it is or decreases the measure; the flag is never
      lowered *)
  Definition step_ok (p q : pst) : Prop := (q = p \/ mu q < mu p) /\ (snd p = true -> snd q = true) /\ length (fst q) <= length (fst p).

  Lemma step_ok_refl p : step_ok p p.
  Proof. repeat split; auto. Qed.

  Lemma step_ok_trans p q r : step_ok p q -> step_ok q r -> step_ok p r.
  Proof.
    intros ([E1|L1] & F1 & N1) ([E2|L2] & F2 & N2); subst; repeat split; auto; try lia; right; lia.
  Qed.

  Lemma pstrip_ok p : step_ok p (pstrip p).
  Proof.
    destruct (pstrip_mu p) as [_ H]. unfold pstrip in *. destruct p as [[|[o v s|t| |t|t] u] ro]; cbn [fst snd] in *;
      try apply step_ok_refl. repeat split; auto. cbn. lia.
  Qed.

  Lemma p_arg_ok p q : p_arg p = Some q -> step_ok p q /\ mu q < mu p.
  Proof.
    unfold p_arg. pose proof (pstrip_ok p) as Hs. pose proof (pstrip_mu p) as [M _].
    destruct (pstrip p) as [[|[o v s|t| |t|t] u] ro] eqn:E; cbn [fst snd]; try discriminate.
    intros [= <-].
    assert (Hq : step_ok (P t :: u, ro) (u, ro) /\ mu (u, ro) < mu (P t :: u, ro)).
    { unfold step_ok, mu. cbn [fst snd length]. repeat split; auto; try lia. }
    destruct Hq as [Hq1 Hq2]. split; [eapply step_ok_trans; eauto | lia].
  Qed.

  Lemma p_opt_ok o p q : p_opt o p = Some q -> step_ok p q.
  Proof.
    unfold p_opt. pose proof (pstrip_ok p) as Hs.
    destruct (pstrip p) as [u ro] eqn:E. cbn [fst snd].
    assert (Hfb : (if rd_env RD o then Some (u, ro) else None) = Some q -> step_ok p q).
    { destruct (rd_env RD o); [|discriminate]. now intros [= <-]. }
    destruct ro; [exact Hfb|]. destruct (take_occ o u) as [[v u']|] eqn:Et; [|exact Hfb].
    intros [= <-]. apply take_occ_len in Et. eapply step_ok_trans; [exact Hs|].
    repeat split; cbn [fst snd]; auto; try lia; try discriminate. right. unfold mu. cbn [fst snd]. lia.
  Qed.

  Lemma p_grp_ok js p q : p_grp js p = Some q -> step_ok p q.
  Proof.
    unfold p_grp. pose proof (pstrip_ok p) as Hs.
    destruct (pstrip p) as [u ro] eqn:E. cbn [fst snd]. destruct ro; [discriminate|].
    destruct u as [|s u]; [discriminate|].
    destruct (greedy_take_none (S (length (s :: u))) js (s :: u) false) as (u' & tk' & G). rewrite G.
    destruct (greedy_take_len _ _ _ _ _ _ G) as [L1 L2].
    destruct tk'.
    - intros [= <-]. eapply step_ok_trans; [exact Hs|]. destruct (L2 eq_refl) as [X|X]; [discriminate|].
      repeat split; cbn [fst snd]; auto; try discriminate. right. unfold mu. cbn [fst snd]. lia.
    - destruct (existsb (rd_env RD) js); [|discriminate]. now intros [= <-].
  Qed.

  Theorem den_ok :
    (forall s p q, PS s p q -> step_ok p q) /\ (forall c p q, PC c p q -> step_ok p q) /\
    (forall a p q, PR a p q -> step_ok p q) /\ (forall a p q, PA a p q -> step_ok p q).
  Proof.
    apply pden_mutind; intros; eauto using step_ok_refl, step_ok_trans, p_opt_ok, p_grp_ok.
    apply p_arg_ok in e. tauto.
  Qed.

  Lemma prog_spec p q : step_ok p q -> (prog p q = true <-> mu q < mu p) /\ (prog p q = false -> q = p).
  Proof.
    intros ([E|L] & F & N).
    - subst. unfold prog, progress, sym_size. cbn [rs_u rs_ro]. rewrite Nat.ltb_irrefl. destruct (snd p); cbn; split; try split; try lia; try discriminate; auto.
    - assert (X : prog p q = true).
      { unfold prog, progress, sym_size. cbn [rs_u rs_ro]. unfold mu in L.
        destruct (Nat.ltb_spec (length (fst q)) (length (fst p))) as [H|H]; [reflexivity|].
        assert (length (fst q) = length (fst p)) by lia. destruct (snd p) eqn:Ep.
        - specialize (F eq_refl). rewrite F in L. lia.
        - destruct (snd q) eqn:Eq; [reflexivity | lia]. }
      split; [split; auto | congruence].
  Qed.

  (** * The continuation-passing matcher computes the relation *)
  Inductive Iter (a : atom) : pst -> pst -> Prop :=
  | It1 p q : PA a p q -> Iter a p q
  | It2 p p1 q : PA a p p1 -> Iter a p1 q -> Iter a p q.

  Theorem cps_correct :
    (forall s, seq_has_dd s = false -> forall fuel p k, mu p < fuel ->
       (r_seq RD md nopts s fuel (st2 p) k = Yes <-> exists q, PS s p q /\ k (st2 q) = Yes)) /\
    (forall c, choice_has_dd c = false -> forall fuel p k, mu p < fuel ->
       (r_choice RD md nopts c fuel (st2 p) k = Yes <-> exists q, PC c p q /\ k (st2 q) = Yes)) /\
    (forall a, ratom_has_dd a = false -> forall fuel p k, mu p < fuel ->
       (r_ratom RD md nopts a fuel (st2 p) k = Yes <-> exists q, PR a p q /\ k (st2 q) = Yes)) /\
    (forall a, atom_has_dd a = false -> forall fuel p k, mu p < fuel ->
       (r_atom RD md nopts a fuel (st2 p) k = Yes <-> exists q, PA a p q /\ k (st2 q) = Yes)).
  Proof.
    destruct den_ok as (OkS & OkC & OkR & OkA).
    assert (Hmu : forall p q, step_ok p q -> mu q <= mu p).
    { intros p q ([->|L] & _); lia. }
    apply ast_mutind.
    - (* SNil *) intros _ fuel p k _. cbn [r_seq]. split; [intros H; exists p; split; [constructor | exact H]|].
      intros (q & Hq & Hk). inversion Hq; subst. exact Hk.
    - (* SCons *) intros c IHc s IHs Hd fuel p k Hf. cbn in Hd. apply orb_false_iff in Hd as [Hd1 Hd2].
      change (r_seq RD md nopts (SCons c s) fuel (st2 p) k) with
        (r_choice RD md nopts c fuel (st2 p) (fun st' => r_seq RD md nopts s fuel st' k)).
      rewrite (IHc Hd1 fuel p _ Hf). split.
      + intros (q1 & H1 & H2). apply (IHs Hd2 fuel q1 k) in H2; [|pose proof (Hmu _ _ (OkC _ _ _ H1)); lia].
        destruct H2 as (q & H2 & Hk). exists q. split; [econstructor; eauto | exact Hk].
      + intros (q & Hq & Hk). inversion Hq as [|ch s0 p0 p1 p2 H1 H2]; subst. exists p1. split; [exact H1|].
        apply (IHs Hd2 fuel p1 k); [pose proof (Hmu _ _ (OkC _ _ _ H1)); lia|]. eauto.
    - (* COne *) intros a IHa Hd fuel p k Hf. cbn in Hd.
      change (r_choice RD md nopts (COne a) fuel (st2 p) k) with (r_ratom RD md nopts a fuel (st2 p) k).
      rewrite (IHa Hd fuel p k Hf). split; intros (q & H & Hk); exists q; (split; [|exact Hk]); [now constructor | now inversion H].
    - (* CAlt *) intros a IHa c IHc Hd fuel p k Hf. cbn in Hd. apply orb_false_iff in Hd as [Hd1 Hd2].
      change (r_choice RD md nopts (CAlt a c) fuel (st2 p) k) with
        (vor (r_ratom RD md nopts a fuel (st2 p) k) (fun _ => r_choice RD md nopts c fuel (st2 p) k)).
      rewrite vor_yes, (IHa Hd1 fuel p k Hf), (IHc Hd2 fuel p k Hf). split.
      + intros [(q & H & Hk)|(q & H & Hk)]; exists q; (split; [|exact Hk]); [now apply PCAltL | now apply PCAltR].
      + intros (q & H & Hk). inversion H; subst; [left | right]; eauto.
    - (* RAtom *) intros a IHa rep Hd fuel p k Hf. cbn in Hd. destruct rep.
      + (* one or more, with the progress guard *)
        change (r_ratom RD md nopts (RAtom a true) fuel (st2 p) k) with
          ((fix loop (n : nat) (st : rstate) : verdict :=
              match n with
              | 0 => No
              | S n' => r_atom RD md nopts a fuel st
                               (fun st' => vor (k st') (fun _ => if progress st st' then loop n' st' else No))
              end) fuel (st2 p)).
        set (loop := fix loop (n : nat) (st : rstate) : verdict :=
              match n with
              | 0 => No
              | S n' => r_atom RD md nopts a fuel st
                               (fun st' => vor (k st') (fun _ => if progress st st' then loop n' st' else No))
              end).
        (* soundness of the loop, for any count *)
        assert (Hsound : forall n p0, mu p0 < fuel -> loop n (st2 p0) = Yes -> exists q, PR (RAtom a true) p0 q /\ k (st2 q) = Yes).
        { induction n as [|n IHn]; intros p0 Hf0; [discriminate|]. cbn [loop].
          rewrite (IHa Hd fuel p0 _ Hf0). intros (q1 & H1 & H2). apply vor_yes in H2 as [H2|H2].
          - exists q1. split; [now apply PROnce | exact H2].
          - change (progress (st2 p0) (st2 q1)) with (prog p0 q1) in H2. destruct (prog p0 q1); [|discriminate].
            destruct (IHn q1) as (q & Hq & Hk); [pose proof (Hmu _ _ (OkA _ _ _ H1)); lia | exact H2|].
            exists q. split; [eapply PRMore; eauto | exact Hk]. }
        (* completeness: the count is enough for as many progressing iterations as the measure allows *)
        assert (Hiter : forall p0 q, PR (RAtom a true) p0 q -> Iter a p0 q).
        { intros p0 q H. remember (RAtom a true) as ra eqn:Era.
          induction H as [a0 rep p0 q0 H1 | a0 p0 p1 q0 H1 Hrest IH]; inversion Era; subst.
          - now apply It1.
          - eapply It2; eauto. }
        assert (Hcomplete : forall q p0, Iter a p0 q -> forall n, mu p0 < fuel -> mu p0 < n ->
                                        k (st2 q) = Yes -> loop n (st2 p0) = Yes).
        { intros q p0 Hit.
          induction Hit as [p0 q0 H1 | p0 p1 q0 H1 Hrest IH]; intros n Hf0 Hn Hk.
          - destruct n as [|n]; [lia|]. cbn [loop]. rewrite (IHa Hd fuel p0 _ Hf0).
            exists q0. split; [exact H1|]. apply vor_yes. now left.
          - pose proof (OkA _ _ _ H1) as Hok. destruct (prog_spec p0 p1 Hok) as [[P1 P2] P3].
            destruct (prog p0 p1) eqn:Ep.
            + destruct n as [|n]; [lia|]. cbn [loop]. rewrite (IHa Hd fuel p0 _ Hf0).
              exists p1. split; [exact H1|]. apply vor_yes. right.
              change (progress (st2 p0) (st2 p1)) with (prog p0 p1). rewrite Ep.
              apply IH; [pose proof (Hmu _ _ Hok); lia | specialize (P1 eq_refl); lia | exact Hk].
            + (* an iteration without progress changes nothing: skip it *)
              rewrite (P3 eq_refl) in *. now apply IH. }
        split; [apply Hsound; exact Hf|]. intros (q & Hq & Hk). apply (Hcomplete q p (Hiter p q Hq) fuel); [exact Hf | | exact Hk].
        unfold mu in *. destruct (snd p); lia.
      + change (r_ratom RD md nopts (RAtom a false) fuel (st2 p) k) with (r_atom RD md nopts a fuel (st2 p) k).
        rewrite (IHa Hd fuel p k Hf). split; intros (q & H & Hk); exists q; (split; [|exact Hk]); [now constructor | now inversion H].
    - (* ARG *) intros i _ fuel p k _. cbn [r_atom]. rewrite k_arg_p. destruct (p_arg p) as [q|] eqn:E.
      + split; [intros H; exists q; split; [now constructor | exact H]|]. intros (q' & H & Hk). inversion H; subst. congruence.
      + split; [discriminate|]. intros (q' & H & Hk). inversion H; subst. congruence.
    - (* OPTIONS *) intros _ fuel p k _. cbn [r_atom]. rewrite k_group_p. destruct (p_grp (List.seq 0 nopts) p) as [q|] eqn:E.
      + split; [intros H; exists q; split; [now constructor | exact H]|]. intros (q' & H & Hk). inversion H; subst. congruence.
      + split; [discriminate|]. intros (q' & H & Hk). inversion H; subst. congruence.
    - (* option *) intros o _ fuel p k _. cbn [r_atom]. rewrite k_opt_p. destruct (p_opt o p) as [q|] eqn:E.
      + split; [intros H; exists q; split; [now constructor | exact H]|]. intros (q' & H & Hk). inversion H; subst. congruence.
      + split; [discriminate|]. intros (q' & H & Hk). inversion H; subst. congruence.
    - (* group *) intros js _ fuel p k _. cbn [r_atom]. rewrite k_group_p. destruct (p_grp js p) as [q|] eqn:E.
      + split; [intros H; exists q; split; [now constructor | exact H]|]. intros (q' & H & Hk). inversion H; subst. congruence.
      + split; [discriminate|]. intros (q' & H & Hk). inversion H; subst. congruence.
    - (* -- *) intros Hd. cbn in Hd. discriminate.
    - (* ( ) *) intros s IHs Hd fuel p k Hf. cbn in Hd.
      change (r_atom RD md nopts (APar s) fuel (st2 p) k) with (r_seq RD md nopts s fuel (st2 p) k).
      rewrite (IHs Hd fuel p k Hf). split; intros (q & H & Hk); exists q; (split; [|exact Hk]); [now constructor | now inversion H].
    - (* [ ] *) intros s IHs Hd fuel p k Hf. cbn in Hd.
      change (r_atom RD md nopts (ASq s) fuel (st2 p) k) with (vor (r_seq RD md nopts s fuel (st2 p) k) (fun _ => k (st2 p))).
      rewrite vor_yes, (IHs Hd fuel p k Hf). split.
      + intros [(q & H & Hk)|Hk]; [exists q; split; [now apply PASqSome | exact Hk] | exists p; split; [apply PASqNone | exact Hk]].
      + intros (q & H & Hk). inversion H; subst; [left; eauto | now right].
  Qed.
End Ref.

(** * From (symbols with their source tokens) to the erased symbols of [SymProofs] *)
Section Erase.
  Variable D : optinfo.
  Variable nopts : nat.
  Notation RD := (rdecl_of D).

  Lemma erase_all_cons s u w : erase_all (s :: u) = Some w ->
    exists x w', erase s = Some x /\ erase_all u = Some w' /\ w = x :: w'.
  Proof.
    cbn [erase_all]. destruct (erase s) as [x|]; [|discriminate]. destruct (erase_all u) as [w'|]; [|discriminate].
    intros [= <-]. eauto.
  Qed.

  Lemma take_occ_take o u : forall w, erase_all u = Some w ->
    match take_occ o u with
    | Some (v, u') => exists w', take o w = Some (v, w') /\ erase_all u' = Some w'
    | None => take o w = None
    end.
  Proof.
    induction u as [|s u IH]; intros w Hw; [injection Hw as <-; reflexivity|].
    apply erase_all_cons in Hw as (x & w' & Hx & Hw' & ->). specialize (IH w' Hw').
    destruct s as [o' v src|t| |t|t]; cbn in Hx; try discriminate; injection Hx as <-; cbn [take_occ take]; try reflexivity.
    destruct (Nat.eqb o o'); [exists w'; auto|].
    destruct (take_occ o u) as [[v' u'']|].
    - destruct IH as (w'' & -> & E). exists (VO o' v :: w''). split; [reflexivity|]. cbn [erase_all erase]. now rewrite E.
    - now rewrite IH.
  Qed.

  Lemma first_some_take js u w : erase_all u = Some w ->
    match first_some (fun o => match take_occ o u with Some (v, u') => Some (o, v, u') | None => None end) js with
    | Some (o, v, u') => exists w', first_take js w = Some (o, v, w') /\ erase_all u' = Some w'
    | None => first_take js w = None
    end.
  Proof.
    intros Hw. induction js as [|j js IH]; cbn [first_some first_take]; [reflexivity|].
    pose proof (take_occ_take j u w Hw) as H. destruct (take_occ j u) as [[v u']|].
    - destruct H as (w' & -> & E). eauto.
    - rewrite H. exact IH.
  Qed.

  Lemma greedy_take_vgreedy fuel js : forall u w tk u' tk', erase_all u = Some w -> length u < fuel ->
    greedy_take fuel js u None tk = Some (u', None, tk') ->
    exists bs w', VGreedy js w bs w' /\ erase_all u' = Some w' /\ (tk' = true <-> tk = true \/ bs <> []).
  Proof.
    induction fuel as [|f IH]; intros u w tk u' tk' Hw Hf; [lia|]. cbn [greedy_take].
    pose proof (first_some_take js u w Hw) as Hfs.
    destruct (first_some _ js) as [[[o v] u1]|] eqn:Ef.
    - destruct Hfs as (w1 & Ft & E1). cbn [bind]. intros H.
      assert (L : length u1 < length u).
      { clear -Ef. induction js as [|j js IHj]; cbn [first_some] in Ef; [discriminate|].
        destruct (take_occ j u) as [[v' u'']|] eqn:E; [injection Ef as <- <- <-; eapply take_occ_len; eauto | auto]. }
      destruct (IH u1 w1 true u' tk' E1 ltac:(lia) H) as (bs & w' & G & E' & T).
      exists ((KO o, v) :: bs), w'. split; [eapply VGStep; eauto|]. split; [exact E'|].
      split; [intros _; right; discriminate | intros _; apply T; now left].
    - intros [= <- <-]. exists [], w. split; [now constructor|]. split; [exact Hw|]. split; [now left | intros [->|X]; [reflexivity | congruence]].
  Qed.

  Lemma vgreedy_det js w b1 w1 : VGreedy js w b1 w1 -> forall b2 w2, VGreedy js w b2 w2 -> b1 = b2 /\ w1 = w2.
  Proof.
    induction 1 as [w Hn | w o v w' bs m Hf Hg IH]; intros b2 w2 H2; inversion H2; subst; try congruence; [auto|].
    match goal with H : first_take js w = Some (?o2, ?v2, ?a2) |- _ => rewrite Hf in H; injection H as <- <- <- end.
    match goal with H : VGreedy js w' _ _ |- _ => destruct (IH _ _ H) as [-> ->] end. auto.
  Qed.

  Lemma erase_all_nil_iff u w : erase_all u = Some w -> (u = [] <-> w = []).
  Proof.
    destruct u as [|s u]; [intros [= <-]; tauto|]. intros H. apply erase_all_cons in H as (x & w' & _ & _ & ->).
    split; discriminate.
  Qed.

  Lemma pstrip_vstrip p w : erase_all (fst p) = Some w ->
    erase_all (fst (pstrip p)) = Some (fst (vstrip (w, snd p))) /\ snd (pstrip p) = snd (vstrip (w, snd p)).
  Proof.
    intros Hw. unfold pstrip, vstrip. destruct p as [[|s u] ro]; cbn [fst snd] in *.
    - injection Hw as <-. auto.
    - apply erase_all_cons in Hw as (x & w' & Hx & Hw' & ->).
      destruct s as [o v src|t| |t|t]; cbn in Hx; try discriminate; injection Hx as <-; cbn [fst snd erase_all erase]; rewrite ?Hw'; auto.
  Qed.

  (** the leaves *)
  Lemma p_arg_v i p w : erase_all (fst p) = Some w ->
    match p_arg p with
    | Some q => exists w' t, erase_all (fst q) = Some w' /\ v_arg i (vstrip (w, snd p)) = Some ((w', snd q), [(KA i, t)])
    | None => v_arg i (vstrip (w, snd p)) = None
    end.
  Proof.
    intros Hw. destruct (pstrip_vstrip p w Hw) as [E1 E2]. unfold p_arg, v_arg.
    destruct (pstrip p) as [u ro]. destruct (vstrip (w, snd p)) as [w0 r0]. cbn [fst snd] in *. subst r0.
    destruct u as [|s u]; [injection E1 as <-; reflexivity|].
    apply erase_all_cons in E1 as (x & w' & Hx & Hw' & ->).
    destruct s as [o v src|t| |t|t]; cbn in Hx; try discriminate; injection Hx as <-; try reflexivity.
    exists w', t. auto.
  Qed.

  Lemma p_opt_v o p w : erase_all (fst p) = Some w ->
    match p_opt RD o p with
    | Some q => exists w' b, erase_all (fst q) = Some w' /\ v_opt D o (vstrip (w, snd p)) = Some ((w', snd q), b)
    | None => v_opt D o (vstrip (w, snd p)) = None
    end.
  Proof.
    intros Hw. destruct (pstrip_vstrip p w Hw) as [E1 E2]. unfold p_opt, v_opt. cbn [rd_env rdecl_of].
    destruct (pstrip p) as [u ro]. destruct (vstrip (w, snd p)) as [w0 r0]. cbn [fst snd] in *. subst r0.
    assert (Hfb : match (if oi_fromenv D o then Some (u, ro) else None) with
                  | Some q => exists w' b, erase_all (fst q) = Some w' /\
                                           (if oi_fromenv D o then Some ((w0, ro), @nil binding) else None) = Some ((w', snd q), b)
                  | None => (if oi_fromenv D o then Some ((w0, ro), @nil binding) else None) = None
                  end).
    { destruct (oi_fromenv D o); [exists w0, []; auto | reflexivity]. }
    destruct ro; [exact Hfb|].
    pose proof (take_occ_take o u w0 E1) as Ht. destruct (take_occ o u) as [[v u']|].
    - destruct Ht as (w' & -> & E'). exists w', [(KO o, v)]. auto.
    - rewrite Ht. exact Hfb.
  Qed.

  Lemma existsb_env js : existsb (rd_env RD) js = true <-> exists o, In o js /\ oi_fromenv D o = true.
  Proof. rewrite existsb_exists. reflexivity. Qed.

  Lemma p_grp_fwd js p q w : erase_all (fst p) = Some w -> p_grp RD js p = Some q ->
    exists w' b, erase_all (fst q) = Some w' /\ v_grp D js (vstrip (w, snd p)) (w', snd q) b.
  Proof.
    intros Hw. destruct (pstrip_vstrip p w Hw) as [E1 E2]. unfold p_grp.
    destruct (pstrip p) as [u ro]. destruct (vstrip (w, snd p)) as [w0 r0]. cbn [fst snd] in *. subst r0.
    destruct ro; [discriminate|]. destruct u as [|s u]; [discriminate|].
    destruct (greedy_take_none (S (length (s :: u))) js (s :: u) false) as (u' & tk' & G). rewrite G.
    destruct (greedy_take_vgreedy _ js _ w0 false u' tk' E1 (Nat.lt_succ_diag_r _) G) as (bs & w' & VG & E' & T).
    assert (Hne : w0 <> []) by (intros ->; destruct (erase_all_nil_iff _ _ E1) as [_ X]; specialize (X eq_refl); discriminate).
    destruct tk'.
    - intros [= <-]. exists w', bs. split; [exact E'|]. constructor; auto. left. destruct (proj1 T eq_refl); [discriminate | assumption].
    - destruct (existsb (rd_env RD) js) eqn:Ee; [|discriminate]. intros [= <-]. cbn [fst snd].
      assert (bs = []) as ->.
      { destruct bs; [reflexivity|]. exfalso. assert (false = true) by (apply T; right; discriminate). discriminate. }
      inversion VG; subst. exists w', []. split; [exact E1|]. constructor; auto. right. now apply existsb_env.
  Qed.

  Lemma p_grp_bwd js p w w' b : erase_all (fst p) = Some w -> v_grp D js (vstrip (w, snd p)) (w', false) b ->
    exists q, p_grp RD js p = Some q /\ erase_all (fst q) = Some w' /\ snd q = false.
  Proof.
    intros Hw Hg. destruct (pstrip_vstrip p w Hw) as [E1 E2]. unfold p_grp.
    destruct (pstrip p) as [u ro]. destruct (vstrip (w, snd p)) as [w0 r0]. cbn [fst snd] in *. subst r0.
    inversion Hg as [u0 bs u0' Hne VG Hc]; subst.
    destruct u as [|s u]; [injection E1 as <-; congruence|].
    destruct (greedy_take_none (S (length (s :: u))) js (s :: u) false) as (u' & tk' & G). rewrite G.
    destruct (greedy_take_vgreedy _ js _ w0 false u' tk' E1 (Nat.lt_succ_diag_r _) G) as (bs2 & w2 & VG2 & E' & T).
    destruct (vgreedy_det js w0 b w' VG bs2 w2 VG2) as [-> ->].
    destruct tk'.
    - exists (u', false). auto.
    - assert (bs2 = []) as ->.
      { destruct bs2; [reflexivity|]. exfalso. assert (false = true) by (apply T; right; discriminate). discriminate. }
      destruct Hc as [X|X]; [congruence|]. apply existsb_env in X. rewrite X.
      inversion VG2; subst. exists (s :: u, false). auto.
  Qed.

  (** the two relations coincide *)
  Theorem ps_vs :
    (forall s p q, PS RD nopts s p q -> forall w, erase_all (fst p) = Some w ->
       exists w' b, VS D nopts s (w, snd p) (w', snd q) b /\ erase_all (fst q) = Some w') /\
    (forall c p q, PC RD nopts c p q -> forall w, erase_all (fst p) = Some w ->
       exists w' b, VC D nopts c (w, snd p) (w', snd q) b /\ erase_all (fst q) = Some w') /\
    (forall a p q, PR RD nopts a p q -> forall w, erase_all (fst p) = Some w ->
       exists w' b, VR D nopts a (w, snd p) (w', snd q) b /\ erase_all (fst q) = Some w') /\
    (forall a p q, PA RD nopts a p q -> forall w, erase_all (fst p) = Some w ->
       exists w' b, VA D nopts a (w, snd p) (w', snd q) b /\ erase_all (fst q) = Some w').
  Proof.
    apply pden_mutind.
    - intros p w Hw. exists w, []. split; [constructor | assumption].
    - intros ch s p p1 p2 _ IH1 _ IH2 w Hw. destruct (IH1 w Hw) as (w1 & b1 & H1 & E1). destruct (IH2 w1 E1) as (w2 & b2 & H2 & E2).
      exists w2, (b1 ++ b2). split; [econstructor; eauto | assumption].
    - intros a p q _ IH w Hw. destruct (IH w Hw) as (w' & b & H & E). exists w', b. split; [now constructor | assumption].
    - intros a ch p q _ IH w Hw. destruct (IH w Hw) as (w' & b & H & E). exists w', b. split; [now apply VCAltL | assumption].
    - intros a ch p q _ IH w Hw. destruct (IH w Hw) as (w' & b & H & E). exists w', b. split; [now apply VCAltR | assumption].
    - intros a rep p q _ IH w Hw. destruct (IH w Hw) as (w' & b & H & E). exists w', b. split; [now apply VROnce | assumption].
    - intros a p p1 q _ IH1 _ IH2 w Hw. destruct (IH1 w Hw) as (w1 & b1 & H1 & E1). destruct (IH2 w1 E1) as (w2 & b2 & H2 & E2).
      exists w2, (b1 ++ b2). split; [eapply VRMore; eauto | assumption].
    - intros i p q Hq w Hw. pose proof (p_arg_v i p w Hw) as X. rewrite Hq in X. destruct X as (w' & t & E & V).
      exists w', [(KA i, t)]. split; [constructor; exact V | assumption].
    - intros p q Hq w Hw. destruct (p_grp_fwd _ p q w Hw Hq) as (w' & b & E & V). exists w', b. split; [constructor; exact V | assumption].
    - intros o p q Hq w Hw. pose proof (p_opt_v o p w Hw) as X. rewrite Hq in X. destruct X as (w' & b & E & V).
      exists w', b. split; [constructor; exact V | assumption].
    - intros js p q Hq w Hw. destruct (p_grp_fwd _ p q w Hw Hq) as (w' & b & E & V). exists w', b. split; [constructor; exact V | assumption].
    - intros s p q _ IH w Hw. destruct (IH w Hw) as (w' & b & H & E). exists w', b. split; [now constructor | assumption].
    - intros s p q _ IH w Hw. destruct (IH w Hw) as (w' & b & H & E). exists w', b. split; [now apply VASqSome | assumption].
    - intros s p w Hw. exists w, []. split; [apply VASqNone | assumption].
  Qed.

  Theorem vs_ps :
    (forall s c c' b, VS D nopts s c c' b -> forall p, erase_all (fst p) = Some (fst c) -> snd p = snd c ->
       exists q, PS RD nopts s p q /\ erase_all (fst q) = Some (fst c') /\ snd q = snd c') /\
    (forall ch c c' b, VC D nopts ch c c' b -> forall p, erase_all (fst p) = Some (fst c) -> snd p = snd c ->
       exists q, PC RD nopts ch p q /\ erase_all (fst q) = Some (fst c') /\ snd q = snd c') /\
    (forall a c c' b, VR D nopts a c c' b -> forall p, erase_all (fst p) = Some (fst c) -> snd p = snd c ->
       exists q, PR RD nopts a p q /\ erase_all (fst q) = Some (fst c') /\ snd q = snd c') /\
    (forall a c c' b, VA D nopts a c c' b -> forall p, erase_all (fst p) = Some (fst c) -> snd p = snd c ->
       exists q, PA RD nopts a p q /\ erase_all (fst q) = Some (fst c') /\ snd q = snd c').
  Proof.
    apply (vden_mutind D nopts).
    - intros c p Hw Hr. exists p. split; [constructor | auto].
    - intros ch s c c1 c2 b1 b2 _ IH1 _ IH2 p Hw Hr. destruct (IH1 p Hw Hr) as (q1 & H1 & E1 & R1).
      destruct (IH2 q1 E1 R1) as (q2 & H2 & E2 & R2). exists q2. split; [econstructor; eauto | auto].
    - intros a c c' b _ IH p Hw Hr. destruct (IH p Hw Hr) as (q & H & X). exists q. split; [now constructor | exact X].
    - intros a ch c c' b _ IH p Hw Hr. destruct (IH p Hw Hr) as (q & H & X). exists q. split; [now apply PCAltL | exact X].
    - intros a ch c c' b _ IH p Hw Hr. destruct (IH p Hw Hr) as (q & H & X). exists q. split; [now apply PCAltR | exact X].
    - intros a rep c c' b _ IH p Hw Hr. destruct (IH p Hw Hr) as (q & H & X). exists q. split; [now apply PROnce | exact X].
    - intros a c c1 c2 b1 b2 _ IH1 _ IH2 p Hw Hr. destruct (IH1 p Hw Hr) as (q1 & H1 & E1 & R1).
      destruct (IH2 q1 E1 R1) as (q2 & H2 & E2 & R2). exists q2. split; [eapply PRMore; eauto | auto].
    - intros i [w r] [w' r'] b Hm p Hw Hr. cbn [fst snd] in *. subst r. unfold vmstep in Hm.
      pose proof (p_arg_v i p w Hw) as X. destruct (p_arg p) as [q|] eqn:Eq; [|congruence].
      destruct X as (w2 & t & E & V). rewrite V in Hm. injection Hm as <- <- <-. exists q. split; [now constructor | auto].
    - intros [w r] [w' r'] b Hm p Hw Hr. cbn [fst snd] in *. subst r. unfold vmstep in Hm.
      assert (r' = false) as -> by (inversion Hm; reflexivity).
      destruct (p_grp_bwd _ p w w' b Hw Hm) as (q & Hq & E & R). exists q. split; [now constructor | auto].
    - intros o [w r] [w' r'] b Hm p Hw Hr. cbn [fst snd] in *. subst r. unfold vmstep in Hm.
      pose proof (p_opt_v o p w Hw) as X. destruct (p_opt RD o p) as [q|] eqn:Eq; [|congruence].
      destruct X as (w2 & b2 & E & V). rewrite V in Hm. injection Hm as <- <- <-. exists q. split; [now constructor | auto].
    - intros js [w r] [w' r'] b Hm p Hw Hr. cbn [fst snd] in *. subst r. unfold vmstep in Hm.
      assert (r' = false) as -> by (inversion Hm; reflexivity).
      destruct (p_grp_bwd _ p w w' b Hw Hm) as (q & Hq & E & R). exists q. split; [now constructor | auto].
    - intros s c c' b _ IH p Hw Hr. destruct (IH p Hw Hr) as (q & H & X). exists q. split; [now constructor | exact X].
    - intros s c c' b _ IH p Hw Hr. destruct (IH p Hw Hr) as (q & H & X). exists q. split; [now apply PASqSome | exact X].
    - intros s c p Hw Hr. exists p. split; [apply PASqNone | auto].
  Qed.

  (** the reference matcher says Yes exactly on the sentences *)
  Theorem r_match_decides e w u :
    seq_has_dd e = false -> erase_all (read RD w) = Some u ->
    (r_match RD (Greedy true) nopts e w None = Yes <-> exists bs, VAccepts D nopts e (u, false) bs).
  Proof.
    intros Hd Hu. unfold r_match. rewrite Hd. cbn [andb].
    destruct (cps_correct RD nopts) as (C & _).
    change (mkRS (read RD w) false None) with (mkRS (fst (read RD w, false)) (snd (read RD w, false)) None).
    rewrite (C e Hd (length (read RD w) + 2) (read RD w, false) final) by (unfold mu; cbn [fst snd]; lia).
    assert (Hfinal : forall q w', erase_all (fst q) = Some w' ->
              (final (mkRS (fst q) (snd q) None) = Yes <-> fst (vstrip (w', snd q)) = [])).
    { intros q w' E. unfold final. rewrite rstrip_st2. cbn [rs_u rs_t target_done].
      destruct (pstrip_vstrip q w' E) as [E1 _]. rewrite <- (erase_all_nil_iff _ _ E1).
      destruct (fst (pstrip q)); split; congruence. }
    split.
    - intros (q & Hps & Hf). destruct ps_vs as (F & _). destruct (F e _ q Hps u Hu) as (w' & b & Hvs & E). cbn [fst snd] in Hvs.
      exists b, (w', snd q). split; [exact Hvs|]. now apply (Hfinal q w' E).
    - intros (bs & [w' r'] & Hvs & Hend). destruct vs_ps as (B & _).
      destruct (B e (u, false) (w', r') bs Hvs (read RD w, false) Hu eq_refl) as (q & Hps & E & R). cbn [fst snd] in *. subst r'.
      exists q. split; [exact Hps|]. now apply (Hfinal q w' E).
  Qed.
End Erase.

(** * The loop closed: the compiled command accepts iff the reference matcher says Yes *)
From MowCli Require Import Lexer Values Flow Cmd Apply.

Theorem accepts_iff_reference opts args spec i toks e a u :
  compile opts args spec = IOk i ->
  tokenize spec = LexOk toks ->
  parse_tokens (lookup_name opts) (lookup_name args) (length spec) toks = ParseOk e ->
  seq_has_dd e = false -> sane (optinfo_of opts) = true -> view (optinfo_of opts) a = Some u ->
  ((exists bs, fsm_apply (optinfo_of opts) (i_graph i) (i_start i) a = AOk bs) <->
   r_match (rdecl_of (optinfo_of opts)) (Greedy true) (length opts) e a None = Yes).
Proof.
  intros Hc Hl Hp Hd Hsane Hv.
  destruct (compile_accepts_iff_symbols opts args spec i toks e a u Hc Hl Hp Hd Hsane Hv) as [H _].
  rewrite H. symmetry. apply r_match_decides; [exact Hd|].
  unfold view in Hv. destruct (has_q1 (rdecl_of (optinfo_of opts)) a); [discriminate | exact Hv].
Qed.
