(** T3: bisimulation transfer. If two configurations are related by a relation that every matcher
    of the automaton respects (both fail, or both succeed with the same recorded values, related
    remainders and the same "made progress" bit) and that the one-time drop of "--" respects, then
    the depth-first search gives the very same answer on both: same verdict, same bindings. *)
From MowCli Require Import Base Nfa Matchers Apply ApplyProofs TermProofs.

Section Mono.
  Variable D : optinfo.
  Variable g : graph.

  (** an answer that is not "out of fuel" does not depend on the fuel *)
  Lemma try_matches_mono (rec1 rec2 : nat -> list str -> bool -> list nat -> ares * list nat) a1 r1 :
    (forall s a r sn res sn', rec1 s a r sn = (res, sn') -> res <> AFuel -> rec2 s a r sn = (res, sn')) ->
    forall ms seen res sn',
      try_matches rec1 a1 r1 ms seen = (res, sn') -> res <> AFuel ->
      try_matches rec2 a1 r1 ms seen = (res, sn').
  Proof.
    intros Hrec. induction ms as [|[[[t rem] ro'] bs] ms IH]; intros seen res sn'; cbn [try_matches]; [auto|].
    destruct (strs_eqb rem a1 && Bool.eqb ro' r1).
    - destruct (mem_nat t seen); [apply IH|].
      destruct (rec1 t rem ro' seen) as [[b1| |] s1] eqn:E1.
      + rewrite (Hrec _ _ _ _ _ _ E1) by discriminate. auto.
      + rewrite (Hrec _ _ _ _ _ _ E1) by discriminate. apply IH.
      + intros [= <- <-] H. congruence.
    - destruct (rec1 t rem ro' []) as [[b1| |] s1] eqn:E1.
      + rewrite (Hrec _ _ _ _ _ _ E1) by discriminate. auto.
      + rewrite (Hrec _ _ _ _ _ _ E1) by discriminate. apply IH.
      + intros [= <- <-] H. congruence.
  Qed.

  Lemma apply_mono_S : forall f s a r sn res sn',
    apply D g f s a r sn = (res, sn') -> res <> AFuel -> apply D g (S f) s a r sn = (res, sn').
  Proof.
    induction f as [|f IH]; intros s a r sn res sn'.
    - cbn [apply]. intros [= <- <-] H. congruence.
    - intros H Hne. cbn [apply] in H |- *. destruct (strip a r) as [a1 r1].
      destruct (match a1 with [] => terminal g s | _ :: _ => false end); [exact H|].
      eapply try_matches_mono; [|exact H|exact Hne]. intros s0 a0 r0 sn0 res0 sn0' E Hn. now apply IH.
  Qed.

  Lemma apply_mono f f' s a r sn res sn' :
    f <= f' -> apply D g f s a r sn = (res, sn') -> res <> AFuel -> apply D g f' s a r sn = (res, sn').
  Proof.
    induction 1 as [|f' Hle IH]; [auto|]. intros H Hne. apply apply_mono_S; auto.
  Qed.
End Mono.

Section Sim.
  Variable D1 D2 : optinfo.
  Variable g : graph.
  Hypothesis Hwf : wf_graph g.

  Definition cfg := (list str * bool)%type.
  Variable R : cfg -> cfg -> Prop.
  (** the labels the automaton uses *)
  Variable Lab : label -> Prop.
  Hypothesis Hlab : forall s l t, In (l, t) (edges g s) -> Lab l.

  Definition unchanged (a : list str) (r : bool) (a' : list str) (r' : bool) : bool :=
    strs_eqb a' a && Bool.eqb r' r.

  (** the drop of a leading "--" respects the relation *)
  Hypothesis Hstrip : forall a1 r1 a2 r2, R (a1, r1) (a2, r2) ->
    R (strip a1 r1) (strip a2 r2) /\
    (fst (strip a1 r1) = [] <-> fst (strip a2 r2) = []).

  (** every matcher respects it, on configurations whose "--" has been dropped *)
  Hypothesis Hstep : forall l a1 r1 a2 r2, Lab l -> R (a1, r1) (a2, r2) ->
    strip a1 r1 = (a1, r1) -> strip a2 r2 = (a2, r2) ->
    match run_matcher D1 l a1 r1, run_matcher D2 l a2 r2 with
    | Some (m1, o1, b1), Some (m2, o2, b2) =>
      b1 = b2 /\ R (m1, o1) (m2, o2) /\ unchanged a1 r1 m1 o1 = unchanged a2 r2 m2 o2
    | None, None => True
    | _, _ => False
    end.

  (** the lists of matches of a state are related pairwise *)
  Inductive Rms (a1 : list str) (r1 : bool) (a2 : list str) (r2 : bool) : list matchrec -> list matchrec -> Prop :=
  | RmsNil : Rms a1 r1 a2 r2 [] []
  | RmsCons t m1 o1 m2 o2 b ms1 ms2 :
      R (m1, o1) (m2, o2) -> unchanged a1 r1 m1 o1 = unchanged a2 r2 m2 o2 ->
      Rms a1 r1 a2 r2 ms1 ms2 ->
      Rms a1 r1 a2 r2 ((t, m1, o1, b) :: ms1) ((t, m2, o2, b) :: ms2).

  Lemma collect_rel s a1 r1 a2 r2 :
    R (a1, r1) (a2, r2) -> strip a1 r1 = (a1, r1) -> strip a2 r2 = (a2, r2) ->
    Rms a1 r1 a2 r2 (collect D1 g s a1 r1) (collect D2 g s a2 r2).
  Proof.
    intros HR H1 H2. unfold collect.
    assert (Hl : forall l t, In (l, t) (edges g s) -> Lab l) by (intros l t; apply Hlab).
    induction (edges g s) as [|[l t] es IH]; cbn [fold_right]; [constructor|].
    cbn [fst snd]. pose proof (Hstep l a1 r1 a2 r2 (Hl l t (or_introl eq_refl)) HR H1 H2) as Hs.
    assert (IH' := IH (fun l0 t0 Hin => Hl l0 t0 (or_intror Hin))).
    destruct (run_matcher D1 l a1 r1) as [[[m1 o1] b1]|], (run_matcher D2 l a2 r2) as [[[m2 o2] b2]|];
      try contradiction; [|exact IH'].
    destruct Hs as (-> & HR' & Hu). now constructor.
  Qed.

  (** the visited set only matters between configurations that are the same as the current one, and
      those have had their "--" dropped already: a call is made either with an empty set (after
      progress, or at the start) or on configurations on which the drop is the identity *)
  Definition settled (a1 : list str) (r1 : bool) (a2 : list str) (r2 : bool) (seen : list nat) : Prop :=
    seen = [] \/ (strip a1 r1 = (a1, r1) /\ strip a2 r2 = (a2, r2)).

  Lemma try_matches_rel (rec1 rec2 : nat -> list str -> bool -> list nat -> ares * list nat) a1 r1 a2 r2 :
    strip a1 r1 = (a1, r1) -> strip a2 r2 = (a2, r2) ->
    (forall t m1 o1 m2 o2 sn, R (m1, o1) (m2, o2) -> settled m1 o1 m2 o2 sn -> rec1 t m1 o1 sn = rec2 t m2 o2 sn) ->
    forall ms1 ms2, Rms a1 r1 a2 r2 ms1 ms2 ->
    forall seen, try_matches rec1 a1 r1 ms1 seen = try_matches rec2 a2 r2 ms2 seen.
  Proof.
    intros St1 St2 Hrec ms1 ms2 H. induction H as [|t m1 o1 m2 o2 b ms1 ms2 HR Hu _ IH]; intros seen; [reflexivity|].
    cbn [try_matches]. unfold unchanged in Hu. rewrite Hu.
    destruct (strs_eqb m2 a2 && Bool.eqb o2 r2) eqn:E2.
    - destruct (mem_nat t seen); [apply IH|].
      assert (Hset : settled m1 o1 m2 o2 seen).
      { right. apply andb_true_iff in Hu as [X1 Y1]. apply andb_true_iff in E2 as [X2 Y2].
        apply strs_eqb_eq in X1, X2. apply Bool.eqb_prop in Y1, Y2. subst. auto. }
      rewrite (Hrec t m1 o1 m2 o2 seen HR Hset).
      destruct (rec2 t m2 o2 seen) as [[b'| |] s']; auto.
    - rewrite (Hrec t m1 o1 m2 o2 [] HR (or_introl eq_refl)). destruct (rec2 t m2 o2 []) as [[b'| |] s']; auto.
  Qed.

  (** the two searches proceed in lockstep *)
  Theorem apply_lockstep : forall f s a1 r1 a2 r2 seen,
    R (a1, r1) (a2, r2) -> settled a1 r1 a2 r2 seen ->
    apply D1 g f s a1 r1 seen = apply D2 g f s a2 r2 seen.
  Proof.
    induction f as [|f IH]; intros s a1 r1 a2 r2 seen HR Hset; [reflexivity|].
    cbn [apply]. destruct (Hstrip a1 r1 a2 r2 HR) as (HR' & Hnil).
    pose proof (strip_idem a1 r1) as I1. pose proof (strip_idem a2 r2) as I2.
    assert (Hseen : (if Nat.eqb (length (fst (strip a1 r1))) (length a1) then seen else []) =
                    (if Nat.eqb (length (fst (strip a2 r2))) (length a2) then seen else [])).
    { destruct Hset as [->|[E1 E2]]; [now destruct (Nat.eqb _ _), (Nat.eqb _ _)|].
      rewrite E1, E2. cbn [fst]. now rewrite !Nat.eqb_refl. }
    destruct (strip a1 r1) as [b1 q1], (strip a2 r2) as [b2 q2]. cbn [fst snd] in *.
    rewrite Hseen.
    assert (Hterm : match b1 with [] => terminal g s | _ :: _ => false end =
                    match b2 with [] => terminal g s | _ :: _ => false end).
    { destruct b1, b2; try reflexivity; exfalso.
      - destruct Hnil as [Hn _]. specialize (Hn eq_refl). discriminate.
      - destruct Hnil as [_ Hn]. specialize (Hn eq_refl). discriminate. }
    rewrite Hterm. destruct (match b2 with [] => terminal g s | _ :: _ => false end); [reflexivity|].
    apply try_matches_rel; auto.
    now apply collect_rel.
  Qed.
End Sim.

(** same declared options on both sides: same verdict and same bindings from [fsm_apply] *)
Theorem bisim_same_result D g (R : cfg -> cfg -> Prop) (Lab : label -> Prop) :
  wf_graph g ->
  (forall s l t, In (l, t) (edges g s) -> Lab l) ->
  (forall a1 r1 a2 r2, R (a1, r1) (a2, r2) ->
    R (strip a1 r1) (strip a2 r2) /\
    (fst (strip a1 r1) = [] <-> fst (strip a2 r2) = [])) ->
  (forall l a1 r1 a2 r2, Lab l -> R (a1, r1) (a2, r2) ->
    strip a1 r1 = (a1, r1) -> strip a2 r2 = (a2, r2) ->
    match run_matcher D l a1 r1, run_matcher D l a2 r2 with
    | Some (m1, o1, b1), Some (m2, o2, b2) =>
      b1 = b2 /\ R (m1, o1) (m2, o2) /\ unchanged a1 r1 m1 o1 = unchanged a2 r2 m2 o2
    | None, None => True
    | _, _ => False
    end) ->
  forall start a1 a2, start < nstates g -> R (a1, false) (a2, false) ->
    fsm_apply D g start a1 = fsm_apply D g start a2.
Proof.
  intros Hwf Hlab Hstrip Hstep start a1 a2 Hs HR. unfold fsm_apply.
  set (F := Nat.max (apply_fuel g a1) (apply_fuel g a2)).
  pose proof (fsm_apply_total D g start a1 Hwf Hs) as T1.
  pose proof (fsm_apply_total D g start a2 Hwf Hs) as T2. unfold fsm_apply in T1, T2.
  destruct (apply D g (apply_fuel g a1) start a1 false []) as [res1 sn1] eqn:E1.
  destruct (apply D g (apply_fuel g a2) start a2 false []) as [res2 sn2] eqn:E2. cbn [fst] in *.
  apply (apply_mono D g _ F) in E1; [|unfold F; lia|exact T1].
  apply (apply_mono D g _ F) in E2; [|unfold F; lia|exact T2].
  rewrite (apply_lockstep D D g R Lab Hlab Hstrip Hstep F start a1 false a2 false [] HR (or_introl eq_refl)) in E1.
  congruence.
Qed.

(** * The group matcher respects whatever the single-option matchers respect *)
Section GroupSim.
  Variable D : optinfo.
  Variable R : list str -> list str -> Prop.   (* on argument lists in option mode *)
  (** the two lines are empty together, or no listed option can match on either *)
  Hypothesis Hnil : forall a1 a2, R a1 a2 ->
    (a1 = [] <-> a2 = []) \/ (forall o, m_opt D o a1 false = None /\ m_opt D o a2 false = None).
  Hypothesis Hopt : forall o a1 a2, R a1 a2 ->
    match m_opt D o a1 false, m_opt D o a2 false with
    | Some (m1, _, b1), Some (m2, _, b2) => b1 = b2 /\ R m1 m2 /\ (m1 = a1 <-> m2 = a2)
    | None, None => True
    | _, _ => False
    end.

  Lemma chain (a r m a' r' m' : list str) :
    (r = a \/ args_size r < args_size a) -> (m = r \/ args_size m < args_size r) ->
    (r' = a' \/ args_size r' < args_size a') -> (m' = r' \/ args_size m' < args_size r') ->
    (r = a <-> r' = a') -> (m = r <-> m' = r') -> (m = a <-> m' = a').
  Proof.
    intros H1 H2 H3 H4 E1 E2. split; intros E.
    - assert (r = a) by (destruct H1 as [|H1]; [assumption|]; destruct H2 as [->|H2]; subst; lia).
      subst. assert (m' = r') by (now apply E2). assert (r' = a') by (now apply E1). congruence.
    - assert (r' = a') by (destruct H3 as [|H3]; [assumption|]; destruct H4 as [->|H4]; subst; lia).
      subst. assert (m = r) by (now apply E2). assert (r = a) by (now apply E1). congruence.
  Qed.

  Lemma try_consume_rel opts : forall ex a1 a2, R a1 a2 ->
    match try_consume D opts ex a1, try_consume D opts ex a2 with
    | Some (m1, b1), Some (m2, b2) => b1 = b2 /\ R m1 m2 /\ (m1 = a1 <-> m2 = a2)
    | None, None => True
    | _, _ => False
    end.
  Proof.
    induction opts as [|o opts IH]; intros ex a1 a2 HR; cbn [try_consume]; [exact I|].
    destruct (mem_nat o ex); [now apply IH|]. pose proof (Hopt o a1 a2 HR) as Ho.
    destruct (m_opt D o a1 false) as [[[m1 o1] b1]|], (m_opt D o a2 false) as [[[m2 o2] b2]|]; try contradiction.
    - destruct Ho as (-> & HR' & Hu). destruct b2 as [|b bs]; [now apply IH | auto].
    - now apply IH.
  Qed.

  Lemma try_env_rel opts : forall ex a1 a2, R a1 a2 -> try_env D opts ex a1 = try_env D opts ex a2.
  Proof.
    induction opts as [|o opts IH]; intros ex a1 a2 HR; cbn [try_env]; [reflexivity|].
    destruct (mem_nat o ex); [now apply IH|]. pose proof (Hopt o a1 a2 HR) as Ho.
    destruct (m_opt D o a1 false) as [[[m1 o1] b1]|], (m_opt D o a2 false) as [[[m2 o2] b2]|]; try contradiction.
    - destruct Ho as (-> & HR' & Hu). destruct b2 as [|b bs]; [destruct (oi_fromenv D o); [reflexivity | now apply IH] | now apply IH].
    - now apply IH.
  Qed.

  Lemma try_opts_rel opts : forall ex a1 a2, R a1 a2 ->
    match try_opts D opts ex a1, try_opts D opts ex a2 with
    | Some (m1, b1, e1), Some (m2, b2, e2) => b1 = b2 /\ e1 = e2 /\ R m1 m2 /\ (m1 = a1 <-> m2 = a2)
    | None, None => True
    | _, _ => False
    end.
  Proof.
    intros ex a1 a2 HR. unfold try_opts. pose proof (try_consume_rel opts ex a1 a2 HR) as Hc.
    rewrite (try_env_rel opts ex a1 a2 HR).
    destruct (try_consume D opts ex a1) as [[m1 b1]|], (try_consume D opts ex a2) as [[m2 b2]|]; try contradiction.
    - destruct Hc as (-> & HR' & Hu). auto.
    - destruct (try_env D opts ex a2); [|exact I]. repeat split; auto.
  Qed.

  Lemma try_opts_none_all opts : forall ex a, (forall o, m_opt D o a false = None) -> try_opts D opts ex a = None.
  Proof.
    intros ex a H. unfold try_opts.
    assert (Hc : try_consume D opts ex a = None).
    { induction opts as [|o opts IH]; cbn [try_consume]; [reflexivity|]. destruct (mem_nat o ex); [exact IH|]. now rewrite (H o). }
    assert (He : try_env D opts ex a = None).
    { clear Hc. induction opts as [|o opts IH]; cbn [try_env]; [reflexivity|]. destruct (mem_nat o ex); [exact IH|]. now rewrite (H o). }
    now rewrite Hc, He.
  Qed.

  Lemma try_rel opts ex a1 a2 : R a1 a2 ->
    match try_ D opts ex a1 false, try_ D opts ex a2 false with
    | Some (m1, b1, e1), Some (m2, b2, e2) => b1 = b2 /\ e1 = e2 /\ R m1 m2 /\ (m1 = a1 <-> m2 = a2)
    | None, None => True
    | _, _ => False
    end.
  Proof.
    intros HR. unfold try_. destruct (Hnil a1 a2 HR) as [Hn|Hn].
    - destruct a1 as [|x1 a1], a2 as [|x2 a2]; try exact I.
      + destruct Hn as [Hn _]. specialize (Hn eq_refl). discriminate.
      + destruct Hn as [_ Hn]. specialize (Hn eq_refl). discriminate.
      + now apply try_opts_rel.
    - assert (E1 : match a1 with [] => None | _ :: _ => try_opts D opts ex a1 end = None).
      { destruct a1; [reflexivity|]. apply try_opts_none_all. intros o. apply Hn. }
      assert (E2 : match a2 with [] => None | _ :: _ => try_opts D opts ex a2 end = None).
      { destruct a2; [reflexivity|]. apply try_opts_none_all. intros o. apply Hn. }
      rewrite E1, E2. exact I.
  Qed.

  Lemma try_size opts ex a m b e : try_ D opts ex a false = Some (m, b, e) -> m = a \/ args_size m < args_size a.
  Proof.
    unfold try_. destruct a as [|x a]; [discriminate|]. intros H.
    destruct (try_opts_progress _ _ _ _ _ _ _ H) as [[Hlt _]|(-> & _)]; auto.
  Qed.

  Lemma group_loop_size f : forall opts ex r b r1 b1,
    group_loop D f opts ex r b = Some (r1, b1) -> r1 = r \/ args_size r1 < args_size r.
  Proof.
    induction f as [|f IH]; intros opts ex r b r1 b1; cbn [group_loop]; [discriminate|].
    destruct (try_ D opts ex r false) as [[[r2 b2] ex2]|] eqn:Ht.
    - intros H. apply IH in H. apply try_size in Ht. destruct H as [->|H], Ht as [->|Ht]; auto; right; lia.
    - intros [= <- <-]. now left.
  Qed.

  Lemma group_loop_rel f : forall opts ex a1 a2 acc, R a1 a2 ->
    match group_loop D f opts ex a1 acc, group_loop D f opts ex a2 acc with
    | Some (m1, b1), Some (m2, b2) => b1 = b2 /\ R m1 m2 /\ (m1 = a1 <-> m2 = a2)
    | None, None => True
    | _, _ => False
    end.
  Proof.
    induction f as [|f IH]; intros opts ex a1 a2 acc HR; cbn [group_loop]; [exact I|].
    pose proof (try_rel opts ex a1 a2 HR) as Ht.
    destruct (try_ D opts ex a1 false) as [[[r1 c1] e1]|] eqn:T1, (try_ D opts ex a2 false) as [[[r2 c2] e2]|] eqn:T2;
      try contradiction.
    - destruct Ht as (-> & -> & HR' & Hu). specialize (IH opts e2 r1 r2 (acc ++ c2) HR').
      destruct (group_loop D f opts e2 r1 (acc ++ c2)) as [[m1 b1]|] eqn:G1,
               (group_loop D f opts e2 r2 (acc ++ c2)) as [[m2 b2]|] eqn:G2; try contradiction; [|exact I].
      destruct IH as (-> & HRm & Hum). repeat split; auto.
      + intros E. eapply (chain a1 r1 m1 a2 r2 m2); eauto using try_size, group_loop_size.
      + intros E. eapply (chain a1 r1 m1 a2 r2 m2); eauto using try_size, group_loop_size.
    - repeat split; auto.
  Qed.

  Lemma group_loop_mono_S f : forall opts ex a acc res,
    group_loop D f opts ex a acc = Some res -> group_loop D (S f) opts ex a acc = Some res.
  Proof.
    induction f as [|f IH]; intros opts ex a acc res; [discriminate|].
    intros H. cbn [group_loop] in H. change (group_loop D (S (S f)) opts ex a acc) with
      (match try_ D opts ex a false with
       | Some (rem, bs, ex') => group_loop D (S f) opts ex' rem (acc ++ bs)
       | None => Some (a, acc)
       end).
    destruct (try_ D opts ex a false) as [[[rem bs] ex']|]; [now apply IH | exact H].
  Qed.

  Lemma group_loop_mono f f' opts ex a acc res :
    f <= f' -> group_loop D f opts ex a acc = Some res -> group_loop D f' opts ex a acc = Some res.
  Proof. induction 1 as [|f2 Hle IH]; [auto|]. intros Hg. apply group_loop_mono_S. auto. Qed.

  Theorem m_group_rel opts a1 a2 : R a1 a2 ->
    match m_group D opts a1 false, m_group D opts a2 false with
    | Some (m1, _, b1), Some (m2, _, b2) => b1 = b2 /\ R m1 m2 /\ (m1 = a1 <-> m2 = a2)
    | None, None => True
    | _, _ => False
    end.
  Proof.
    intros HR. unfold m_group. pose proof (try_rel opts [] a1 a2 HR) as Ht.
    pose proof (m_group_never_out_of_fuel D opts a1) as N1.
    pose proof (m_group_never_out_of_fuel D opts a2) as N2.
    destruct (try_ D opts [] a1 false) as [[[r1 c1] e1]|] eqn:T1, (try_ D opts [] a2 false) as [[[r2 c2] e2]|] eqn:T2;
      try contradiction; [|exact I].
    destruct Ht as (-> & -> & HR' & Hu).
    set (F := Nat.max (group_fuel opts a1) (group_fuel opts a2)).
    destruct (group_loop D (group_fuel opts a1) opts e2 r1 c2) as [[m1 b1]|] eqn:G1; [|congruence].
    destruct (group_loop D (group_fuel opts a2) opts e2 r2 c2) as [[m2 b2]|] eqn:G2; [|congruence].
    pose proof (group_loop_rel F opts e2 r1 r2 c2 HR') as Hg.
    assert (L1 : group_fuel opts a1 <= F) by (unfold F; lia).
    assert (L2 : group_fuel opts a2 <= F) by (unfold F; lia).
    rewrite (group_loop_mono _ F _ _ _ _ _ L1 G1) in Hg.
    rewrite (group_loop_mono _ F _ _ _ _ _ L2 G2) in Hg.
    destruct Hg as (-> & HRm & Hum). repeat split; auto.
    - intros E. eapply (chain a1 r1 m1 a2 r2 m2); eauto using try_size, group_loop_size.
    - intros E. eapply (chain a1 r1 m1 a2 r2 m2); eauto using try_size, group_loop_size.
  Qed.
End GroupSim.
