(** C11 — adjacent occurrences of different options commute.
    PROVED on the model for every command whose spec has no "--" atom, at the level of the whole
    search (verdict and every bound value), for every declared-options table in which no option is
    called "-" or "=":
    [C11_swapped_readings_same_parse]: two command lines whose clean readings differ by the order of
    two adjacent occurrences of different options, before any "--", are parsed alike by a compiled
    command; [C11_swap_changes_nothing]: at the token level, for two adjacent groups of tokens that
    each read as one occurrence (any spelling, [C10_spellings_read_alike]); the reading-level
    statement also covers two adjacent letters of a folded token (-ab / -ba).
    Through T4a, the generic group lemma and T3, as C10 (see PC10.v); the relation carried through
    the search is "same reading, or the readings differ by that one swap" ([ViewProofs.Sw]), which
    [take] respects ([sw_take]).
    NOT covered by the theorem: specs with a "--" atom, lines with an unreadable or Q1 token; covered
    by the check, which swaps every adjacent pair on the implementation itself. *)
From MowCli Require Import Base Nfa Matchers Apply Values Flow Cmd View TermProofs MatcherProofs SimProofs ViewProofs ReadProofs.

Theorem C11_swap_invisible_to_either_matcher :
  forall D o c long v t o' c' long' v' t' pre rest,
    named D o c long -> Spelled D o c long v t ->
    named D o' c' long' -> Spelled D o' c' long' v' t' -> Nat.eqb o' o = false ->
    scan D o pre (t ++ t' ++ rest) = Some (v, rev_append pre (t' ++ rest)) /\
    scan D o pre (t' ++ t ++ rest) = Some (v, rev_append pre (t' ++ rest)).
Proof. exact swap_own. Qed.

(** a third option sees neither: it steps over both, in either order *)
Theorem C11_third_option_steps_over_both :
  forall D o c long v t o' c' long' v' t' o'' pre rest,
    named D o c long -> Spelled D o c long v t ->
    named D o' c' long' -> Spelled D o' c' long' v' t' ->
    Nat.eqb o o'' = false -> Nat.eqb o' o'' = false ->
    scan D o'' pre (t ++ t' ++ rest) = scan D o'' (rev t' ++ rev t ++ pre) rest /\
    scan D o'' pre (t' ++ t ++ rest) = scan D o'' (rev t ++ rev t' ++ pre) rest.
Proof.
  intros D o c long v t o' c' long' v' t' o'' pre rest Hn Hs Hn' Hs' H1 H2. split.
  - rewrite (other_spelled _ _ _ _ _ _ _ pre (t' ++ rest) Hn Hs H1).
    now rewrite (other_spelled _ _ _ _ _ _ _ (rev t ++ pre) rest Hn' Hs' H2).
  - rewrite (other_spelled _ _ _ _ _ _ _ pre (t ++ rest) Hn' Hs' H2).
    now rewrite (other_spelled _ _ _ _ _ _ _ (rev t' ++ pre) rest Hn Hs H1).
Qed.

(** [take] cannot tell the two orders apart *)
Theorem C11_take_respects_swap :
  forall x u1 u2, Sw u1 u2 ->
    match take x u1, take x u2 with
    | Some (v1, w1), Some (v2, w2) => v1 = v2 /\ Sw w1 w2
    | None, None => True
    | _, _ => False
    end.
Proof. exact sw_take. Qed.

Theorem C11_swap_changes_nothing :
  forall D, oi_lookup D s_dd = None -> oi_lookup D [c_dash; c_eq] = None ->
  forall g start pre up t o v t' o' v' rest u,
    wf_graph g -> (forall s t0, ~ In (LDD, t0) (edges g s)) -> start < nstates g ->
    Prefix D pre up -> no_dd up -> Prefix D t [VO o v] -> Prefix D t' [VO o' v'] -> Nat.eqb o o' = false ->
    Reads D rest u ->
    fsm_apply D g start (pre ++ t ++ t' ++ rest) = fsm_apply D g start (pre ++ t' ++ t ++ rest).
Proof. exact swap_tokens_same_result. Qed.

Theorem C11_swapped_readings_same_parse :
  forall parse_float opts args spec i a1 a2 p o v o' v' w,
    compile opts args spec = IOk i ->
    sane (optinfo_of opts) = true -> no_dd_graph (i_graph i) = true ->
    no_dd_b p = true -> Nat.eqb o o' = false ->
    view (optinfo_of opts) a1 = Some (p ++ VO o v :: VO o' v' :: w) ->
    view (optinfo_of opts) a2 = Some (p ++ VO o' v' :: VO o v :: w) ->
    fsm_parse parse_float i a1 = fsm_parse parse_float i a2.
Proof. exact swapped_view_same_parse. Qed.

Print Assumptions C11_take_respects_swap.
Print Assumptions C11_swap_changes_nothing.
Print Assumptions C11_swapped_readings_same_parse.
Print Assumptions C11_swap_invisible_to_either_matcher.
Print Assumptions C11_third_option_steps_over_both.
