(** C11 — adjacent occurrences of different options commute.
    PARTIAL. Proved, for every declared-options table, every spelling of the two occurrences (one or
    two tokens each), every position in the scanned run and every rest of the command line: to the
    matcher of either option, the two orders of the adjacent pair look the same — it finds its own
    occurrence with the same value and leaves the other occurrence untouched in the remainder. NOT
    yet proved: the same inside a folded token (two adjacent letters) and the lifting through
    State.apply (DESIGN 5/T3); both are covered on every run by swapping every adjacent pair on the
    implementation itself. *)
From MowCli Require Import Base Matchers MatcherProofs.

Theorem C11_swap_invisible_to_either_matcher :
  forall D o c long v t o' c' long' v' t' pre rest,
    named D o c long -> Spelled D o c long v t ->
    named D o' c' long' -> Spelled D o' c' long' v' t' -> Nat.eqb o' o = false ->
    scan D o pre (t ++ t' ++ rest) = Some (v, rev_append pre (t' ++ rest)) /\
    scan D o pre (t' ++ t ++ rest) = Some (v, rev_append pre (t' ++ rest)).
Proof. exact swap_own. Qed.

(** a third option sees neither: it steps over both, in either order *)
Theorem C11_third_option_steps_over_both :
  forall D o c long v t o' c' long' v' t' o'' pre rest,
    named D o c long -> Spelled D o c long v t ->
    named D o' c' long' -> Spelled D o' c' long' v' t' ->
    Nat.eqb o o'' = false -> Nat.eqb o' o'' = false ->
    scan D o'' pre (t ++ t' ++ rest) = scan D o'' (rev t' ++ rev t ++ pre) rest /\
    scan D o'' pre (t' ++ t ++ rest) = scan D o'' (rev t ++ rev t' ++ pre) rest.
Proof.
  intros D o c long v t o' c' long' v' t' o'' pre rest Hn Hs Hn' Hs' H1 H2. split.
  - rewrite (other_spelled _ _ _ _ _ _ _ pre (t' ++ rest) Hn Hs H1).
    now rewrite (other_spelled _ _ _ _ _ _ _ (rev t ++ pre) rest Hn' Hs' H2).
  - rewrite (other_spelled _ _ _ _ _ _ _ pre (t ++ rest) Hn' Hs' H2).
    now rewrite (other_spelled _ _ _ _ _ _ _ (rev t' ++ pre) rest Hn Hs H1).
Qed.

Print Assumptions C11_swap_invisible_to_either_matcher.
Print Assumptions C11_third_option_steps_over_both.
