(** C03 — spec compilation and argument parsing always terminate without crashing.
    Proved for all inputs (every byte string as spec, every declaration list, every command line,
    every environment, every command tree): the lexer, the parser, shortcut elimination (with the D2
    repair), the option-group loop and State.apply (with the D3 repair) all end within the fuel the
    model hands out, compilation yields a well-formed automaton, and Run ends with one of the
    documented outcomes — a positioned spec error (C08), a declaration panic, acceptance or a usage
    error, help — never "out of fuel"; the two "impossible" branches of Cmd.parse are never taken.
    What a theorem about the model cannot show is observed on the running code by the check: the
    real stack and the wall clock (worker with a 64 MiB stack limit and a per-case deadline), and Go
    run-time errors (any is reported as a violation). The model has no crash outcomes: its functions
    are total by construction (pattern matching instead of index expressions). *)
From MowCli Require Import Base Lexer Parser Nfa Matchers Apply
     Values Flow Cmd LexerProofs ParserProofs NfaProofs ApplyProofs TermProofs CompileProofs MemoProofs.

Theorem C03_lexer_total : forall s, tokenize s <> LexFuel.
Proof. exact tokenize_total. Qed.

Theorem C03_parser_total : forall lo la speclen toks, parse_tokens lo la speclen toks <> ParseFuel.
Proof. exact parse_tokens_total. Qed.

(** the Thompson construction yields a graph all of whose transitions lead to allocated states *)
Theorem C03_thompson_wf :
  forall nopts s, let '(start, g) := thompson nopts s in wfg g /\ start < nstates g.
Proof. exact thompson_ok. Qed.

(** every matcher either leaves the configuration (remaining arguments, options-ended flag)
    unchanged — environment fallback, spec "--" when options are already ended, shortcut — or strictly
    decreases its measure: this is what bounds the recursion *)
Theorem C03_matcher_progress :
  forall D l a r rem ro' bs,
    run_matcher D l a r = Some (rem, ro', bs) -> (rem = a /\ ro' = r) \/ msr rem ro' < msr a r.
Proof. exact run_matcher_progress. Qed.

(** the loop of the option-group matcher never exhausts its fuel, whatever options are backed by
    the environment (issue 55 and D4) *)
Theorem C03_group_total :
  forall D opts args,
    match try_ D opts [] args false with
    | Some (rem, bs, ex) => group_loop D (group_fuel opts args) opts ex rem bs <> None
    | None => True
    end.
Proof. exact m_group_never_out_of_fuel. Qed.

(** State.apply with the D3 repair: on every well-formed graph, for every command line and every
    assignment of environment-backed options ([D] arbitrary), the recursion ends within
    [apply_fuel] = (2*size+2)*(states+1)+1 nested calls — no unbounded recursion, hence no stack
    exhaustion — and answers accept or reject *)
(** Since the repair D10 the library's search remembers, for the whole search, the configurations (state, remaining
    arguments, options-ended flag) entered right after input was consumed that were explored without success, so that
    the same remaining arguments reached through another order of taking them are not explored again (a rejected line
    no longer costs a time exponential in the number of occurrences under a repeated choice). That search
    ([MemoProofs.apply_m]) returns exactly what the plain search returns — so every theorem about [fsm_apply] is a
    theorem about it. *)
Theorem C03_memoised_search_same_result :
  forall D g start args,
    wf_graph g -> start < nstates g -> fsm_apply_m D g start args = fsm_apply D g start args.
Proof. intros D g start args Hwf Hs. now apply fsm_apply_m_same. Qed.

Theorem C03_remembered_configurations_are_dead :
  forall D g, wf_graph g ->
  forall fuel s args ro seen dead,
    DeadOK D g dead -> fst (apply D g fuel s args ro seen) <> AFuel ->
    fst (apply_m D g fuel s args ro seen dead) = apply D g fuel s args ro seen /\
    DeadOK D g (snd (apply_m D g fuel s args ro seen dead)).
Proof. exact apply_m_same_result. Qed.

Theorem C03_apply_total :
  forall D g start args,
    wf_graph g -> start < nstates g -> fsm_apply D g start args <> AFuel.
Proof. exact fsm_apply_total. Qed.

(** compiling any spec string against any declarations never runs out of fuel, and what it yields is
    a well-formed automaton *)
Theorem C03_compile_total :
  forall pf ge ds spec,
    do_init pf ge ds spec <> IFuel /\
    forall i, do_init pf ge ds spec = IOk i -> wfg (i_graph i) /\ i_start i < nstates (i_graph i).
Proof. exact do_init_total. Qed.

(** parsing any command line with a compiled command ends: accept, usage error or conversion error *)
Theorem C03_parse_total :
  forall pf ge ds spec i argv, do_init pf ge ds spec = IOk i -> fsm_parse pf i argv <> PFuelOut.
Proof. exact fsm_parse_total. Qed.

(** Run of any application on any command line in any environment ends with a documented outcome *)
Theorem C03_run_total :
  forall pf ge a argv, r_outcome (run pf ge a argv) <> RFuel.
Proof. exact run_total. Qed.

Print Assumptions C03_memoised_search_same_result.
Print Assumptions C03_remembered_configurations_are_dead.
Print Assumptions C03_lexer_total.
Print Assumptions C03_compile_total.
Print Assumptions C03_parse_total.
Print Assumptions C03_run_total.
Print Assumptions C03_parser_total.
Print Assumptions C03_thompson_wf.
Print Assumptions C03_matcher_progress.
Print Assumptions C03_group_total.
Print Assumptions C03_apply_total.

(** D2 and D3, repaired, on the model: both witnesses now terminate *)
Example C03_d2_witness :
  let ds := [mkDecl false KStrings (lit "X") [] [] false (VStrs []) false] in
  match do_init (fun _ => None) (fun _ => []) ds (lit "[[X]...]...") with IOk _ => true | _ => false end = true.
Proof. vm_compute. reflexivity. Qed.

Example C03_d3_witness :
  let ge := fun k : str => if str_eqb k (lit "E") then lit "v" else [] in
  let ds := [mkDecl true KStrings (lit "e") [] (lit "E") false (VStrs []) false;
             mkDecl false KStrings (lit "X") [] [] false (VStrs []) false] in
  match do_init (fun _ => None) ge ds (lit "[-e...] X") with
  | IOk i => match fsm_parse (fun _ => None) i [lit "x"] with PAccept _ _ => true | _ => false end
  | _ => false
  end = true.
Proof. vm_compute. reflexivity. Qed.

(** the memoised search at work: the repeated choice (-a | -b | -c)... on a rejected line, both searches agree *)
Example C03_memo_example :
  let D := mkOI (fun n => if str_eqb n (lit "-a") then Some 0 else if str_eqb n (lit "-b") then Some 1
                          else if str_eqb n (lit "-c") then Some 2 else None) (fun _ => true) (fun _ => false) in
  let g := mkGraph [[(LOpt 0, 0); (LOpt 1, 0); (LOpt 2, 0)]] [true] in
  let line := [lit "-a"; lit "-b"; lit "-c"; lit "-b"; lit "-a"; lit "-z"] in
  (fsm_apply_m D g 0 line, fsm_apply D g 0 line,
   fsm_apply_m D g 0 [lit "-c"; lit "-a"], fsm_apply D g 0 [lit "-c"; lit "-a"])
  = (AFail, AFail, AOk [(KO 0, lit "true"); (KO 2, lit "true")], AOk [(KO 0, lit "true"); (KO 2, lit "true")]).
Proof. vm_compute. reflexivity. Qed.
