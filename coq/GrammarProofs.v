(** C08, the "iff well-formed" direction: the recursive-descent parser of parser.go accepts a token
    list exactly when the declarative grammar below derives it, and returns the derived syntax tree.
      seq    = { choice }
      choice = ratom { '|' ratom }
      ratom  = atom [ '...' ]                 (no '...' after '--')
      atom   = ARG | OPTIONS | -x [=<v>] | --xx [=<v>] | -xyz | '(' seq1 ')' | '[' seq1 ']' | '--'
    where ARG, -x, --xx, -xyz must be declared, seq1 is a non-empty seq, and no option (OPTIONS, -x,
    --xx, -xyz) may come after a '--' in the textual order of the spec (the flag threaded through). *)
From MowCli Require Import Base Lexer Parser ParserProofs.

Section Grammar.
  Variable lookup_opt : str -> option nat.
  Variable lookup_arg : str -> option nat.
  Notation p_seq := (p_seq lookup_opt lookup_arg).
  Notation p_choice := (p_choice lookup_opt lookup_arg).
  Notation p_atom := (p_atom lookup_opt lookup_arg).

  Definition is_opt_tok (t : token) : Prop := tk_typ t = TShortOpt \/ tk_typ t = TLongOpt.

  (** [G* ro l x ro']: the tokens [l], read with "options ended" = [ro], derive [x]; afterwards the
      flag is [ro'] *)
  Inductive GSeq : bool -> list token -> seq -> bool -> Prop :=
  | GNil ro : GSeq ro [] SNil ro
  | GCons ro l1 c ro1 l2 s ro2 :
      GChoice ro l1 c ro1 -> GSeq ro1 l2 s ro2 -> GSeq ro (l1 ++ l2) (SCons c s) ro2
  with GChoice : bool -> list token -> choice -> bool -> Prop :=
  | GOne ro l a ro' : GRatom ro l a ro' -> GChoice ro l (COne a) ro'
  | GAlt ro l1 a ro1 bar l2 c ro2 :
      GRatom ro l1 a ro1 -> tk_typ bar = TChoice -> GChoice ro1 l2 c ro2 ->
      GChoice ro (l1 ++ bar :: l2) (CAlt a c) ro2
  with GRatom : bool -> list token -> ratom -> bool -> Prop :=
  | GPlain ro l a ro' : GAtom ro l a ro' -> GRatom ro l (RAtom a false) ro'
  | GRep ro l a ro' rep :
      GAtom ro l a ro' -> a <> ADD -> tk_typ rep = TRep -> GRatom ro (l ++ [rep]) (RAtom a true) ro'
  with GAtom : bool -> list token -> atom -> bool -> Prop :=
  | GArg ro t i : tk_typ t = TArg -> lookup_arg (tk_val t) = Some i -> GAtom ro [t] (AArg i) ro
  | GOptions t : tk_typ t = TOptions -> GAtom false [t] AOptions false
  | GOpt t i : is_opt_tok t -> lookup_opt (tk_val t) = Some i -> GAtom false [t] (AOpt i) false
  | GOptV t v i : is_opt_tok t -> lookup_opt (tk_val t) = Some i -> tk_typ v = TOptValue ->
                  GAtom false [t; v] (AOpt i) false
  | GGroup t x js : tk_typ t = TOptSeq -> resolve_seq lookup_opt (tk_val t) = inl (x, js) ->
                    GAtom false [t] (AGroup js) false
  | GDD ro t : tk_typ t = TDblDash -> GAtom ro [t] ADD true
  | GPar ro o l s ro' c : tk_typ o = TOpenPar -> GSeq ro l s ro' -> s <> SNil -> tk_typ c = TClosePar ->
                          GAtom ro (o :: l ++ [c]) (APar s) ro'
  | GSq ro o l s ro' c : tk_typ o = TOpenSq -> GSeq ro l s ro' -> s <> SNil -> tk_typ c = TCloseSq ->
                         GAtom ro (o :: l ++ [c]) (ASq s) ro'.

  Scheme GSeq_mut := Induction for GSeq Sort Prop
  with GChoice_mut := Induction for GChoice Sort Prop
  with GRatom_mut := Induction for GRatom Sort Prop
  with GAtom_mut := Induction for GAtom Sort Prop.
  Combined Scheme gram_mutind from GSeq_mut, GChoice_mut, GRatom_mut, GAtom_mut.

  (** * Soundness: what the parser returns is derived by the grammar *)
  Lemma with_rep_sound a toks ro ra r ro' : with_rep a toks ro = POk ra r ro' ->
    ro' = ro /\ ((ra = RAtom a false /\ r = toks) \/ (exists rep, tk_typ rep = TRep /\ toks = rep :: r /\ ra = RAtom a true)).
  Proof.
    unfold with_rep. destruct toks as [|t toks]; [intros [= <- <- <-]; auto|].
    destruct (ttype_eqb (tk_typ t) TRep) eqn:E; intros [= <- <- <-]; split; auto.
    right. exists t. destruct (tk_typ t); try discriminate; auto.
  Qed.

  Lemma ttype_eqb_true a b : ttype_eqb a b = true -> a = b.
  Proof. destruct a, b; cbn; congruence. Qed.

  Lemma skip_optvalue_cases toks : skip_optvalue toks = toks \/ exists v, tk_typ v = TOptValue /\ toks = v :: skip_optvalue toks.
  Proof.
    unfold skip_optvalue. destruct toks as [|t toks]; [now left|].
    destruct (ttype_eqb (tk_typ t) TOptValue) eqn:E; [|now left]. right. exists t. split; [now apply ttype_eqb_true | reflexivity].
  Qed.

  Theorem parser_sound : forall fuel,
    (forall toks ro ra r ro', p_atom fuel toks ro = POk ra r ro' -> exists l, toks = l ++ r /\ GRatom ro l ra ro') /\
    (forall toks ro c r ro', p_choice fuel toks ro = POk c r ro' -> exists l, toks = l ++ r /\ GChoice ro l c ro') /\
    (forall req toks ro s r ro', p_seq fuel req toks ro = POk s r ro' ->
       exists l, toks = l ++ r /\ GSeq ro l s ro' /\ (req = true -> s <> SNil)).
  Proof.
    induction fuel as [|f (IHa & IHc & IHs)]; [repeat split; discriminate|].
    (* a leaf atom followed by an optional '...' *)
    assert (Hleaf : forall a lt toks1 ro ro1 ra r ro',
              GAtom ro lt a ro1 -> a <> ADD -> with_rep a toks1 ro1 = POk ra r ro' ->
              exists l, lt ++ toks1 = l ++ r /\ GRatom ro l ra ro').
    { intros a lt toks1 ro ro1 ra r ro' Hg Hne Hw. destruct (with_rep_sound _ _ _ _ _ _ Hw) as [-> [[-> ->]|(rep & Hr & -> & ->)]].
      - exists lt. split; [reflexivity | now constructor].
      - exists (lt ++ [rep]). split; [now rewrite <- app_assoc | now apply GRep]. }
    assert (Ha : forall toks ro ra r ro', p_atom (S f) toks ro = POk ra r ro' -> exists l, toks = l ++ r /\ GRatom ro l ra ro').
    { intros toks ro ra r ro'. cbn [Parser.p_atom]. destruct toks as [|t toks1]; [discriminate|].
      assert (Hgroup : forall (mk : seq -> atom) (closing : ttype) (msg : str) (opening : ttype),
                 tk_typ t = opening ->
                 (forall o l s ro1 c, tk_typ o = opening -> GSeq ro l s ro1 -> s <> SNil -> tk_typ c = closing ->
                                      GAtom ro (o :: l ++ [c]) (mk s) ro1) ->
                 (forall s, mk s <> ADD) ->
                 match p_seq f true toks1 ro with
                 | POk s toks2 ro2 =>
                   match toks2 with
                   | t2 :: toks3 => if ttype_eqb (tk_typ t2) closing then with_rep (mk s) toks3 ro2
                                    else PErr msg toks2
                   | [] => PErr msg toks2
                   end
                 | PErr m r => PErr m r
                 | PFuel => PFuel
                 end = POk ra r ro' -> exists l, t :: toks1 = l ++ r /\ GRatom ro l ra ro').
      { intros mk closing msg opening Ho Hmk Hadd.
        destruct (p_seq f true toks1 ro) as [s toks2 ro2|m r0|] eqn:Hs; try discriminate.
        destruct (IHs _ _ _ _ _ _ Hs) as (l & -> & Hg & Hreq). specialize (Hreq eq_refl).
        destruct toks2 as [|t2 toks3]; [discriminate|].
        destruct (ttype_eqb (tk_typ t2) closing) eqn:Ec; [|discriminate]. apply ttype_eqb_true in Ec.
        intros Hw. destruct (Hleaf (mk s) (t :: l ++ [t2]) toks3 ro ro2 ra r ro' (Hmk t l s ro2 t2 Ho Hg Hreq Ec) (Hadd s) Hw) as (l' & E & G).
        exists l'. split; [|exact G]. rewrite <- E. cbn. now rewrite <- app_assoc. }
      destruct (tk_typ t) eqn:Et; try discriminate.
      - destruct (lookup_arg (tk_val t)) as [i|] eqn:El; [|discriminate]. intros Hw.
        apply (Hleaf (AArg i) [t] toks1 ro ro ra r ro'); [now constructor | discriminate | exact Hw].
      - apply (Hgroup APar TClosePar msg_expect_par TOpenPar eq_refl); [intros; now apply GPar | discriminate].
      - apply (Hgroup ASq TCloseSq msg_expect_sq TOpenSq eq_refl); [intros; now apply GSq | discriminate].
      - destruct ro; [discriminate|]. intros Hw.
        apply (Hleaf AOptions [t] toks1 false false ra r ro'); [now constructor | discriminate | exact Hw].
      - destruct ro; [discriminate|]. destruct (lookup_opt (tk_val t)) as [i|] eqn:El; [|discriminate]. intros Hw.
        destruct (skip_optvalue_cases toks1) as [E|(v & Hv & E)].
        + rewrite E in Hw. apply (Hleaf (AOpt i) [t] toks1 false false ra r ro'); [apply GOpt; [now left | assumption] | discriminate | exact Hw].
        + rewrite E. apply (Hleaf (AOpt i) [t; v] (skip_optvalue toks1) false false ra r ro');
            [apply GOptV; [now left | assumption | assumption] | discriminate | exact Hw].
      - destruct ro; [discriminate|]. destruct (lookup_opt (tk_val t)) as [i|] eqn:El; [|discriminate]. intros Hw.
        destruct (skip_optvalue_cases toks1) as [E|(v & Hv & E)].
        + rewrite E in Hw. apply (Hleaf (AOpt i) [t] toks1 false false ra r ro'); [apply GOpt; [now right | assumption] | discriminate | exact Hw].
        + rewrite E. apply (Hleaf (AOpt i) [t; v] (skip_optvalue toks1) false false ra r ro');
            [apply GOptV; [now right | assumption | assumption] | discriminate | exact Hw].
      - destruct ro; [discriminate|]. destruct (resolve_seq lookup_opt (tk_val t)) as [[x js]|c0] eqn:Er; [|discriminate]. intros Hw.
        apply (Hleaf (AGroup js) [t] toks1 false false ra r ro'); [now apply GGroup with x | discriminate | exact Hw].
      - intros [= <- <- <-]. exists [t]. split; [reflexivity|]. constructor. now constructor. }
    assert (Hc : forall toks ro c r ro', p_choice (S f) toks ro = POk c r ro' -> exists l, toks = l ++ r /\ GChoice ro l c ro').
    { intros toks ro c r ro'. rewrite p_choice_unfold.
      destruct (Parser.p_atom lookup_opt lookup_arg f toks ro) as [a toks1 ro1|m r0|] eqn:Hat; try discriminate.
      destruct (IHa _ _ _ _ _ Hat) as (l1 & -> & G1).
      destruct toks1 as [|t toks2]; [intros [= <- <- <-]; exists l1; split; [reflexivity | now constructor]|].
      destruct (ttype_eqb (tk_typ t) TChoice) eqn:Et; [|intros [= <- <- <-]; exists l1; split; [reflexivity | now constructor]].
      apply ttype_eqb_true in Et.
      destruct (Parser.p_choice lookup_opt lookup_arg f toks2 ro1) as [c0 toks3 ro3|m r0|] eqn:Hch; try discriminate.
      destruct (IHc _ _ _ _ _ Hch) as (l2 & -> & G2). intros [= <- <- <-].
      exists (l1 ++ t :: l2). split; [now rewrite <- app_assoc | now apply GAlt with ro1]. }
    split; [exact Ha|]. split; [exact Hc|].
    intros req toks ro s r ro'. rewrite p_seq_unfold.
    destruct (req || can_atom toks) eqn:Hreq.
    - destruct (Parser.p_choice lookup_opt lookup_arg f toks ro) as [c toks1 ro1|m r0|] eqn:Hch; try discriminate.
      destruct (IHc _ _ _ _ _ Hch) as (l1 & -> & G1).
      destruct (Parser.p_seq lookup_opt lookup_arg f false toks1 ro1) as [s0 toks2 ro2|m r0|] eqn:Hs; try discriminate.
      destruct (IHs _ _ _ _ _ _ Hs) as (l2 & -> & G2 & _). intros [= <- <- <-].
      exists (l1 ++ l2). split; [now rewrite <- app_assoc|]. split; [now apply GCons with ro1 | discriminate].
    - intros [= <- <- <-]. exists []. split; [reflexivity|]. split; [constructor|].
      intros ->. discriminate.
  Qed.

  (** * Completeness: what the grammar derives the parser returns *)

  Definition head_ty (l : list token) : option ttype := match l with t :: _ => Some (tk_typ t) | [] => None end.

  (** every derivation of an atom starts with a token that can start an atom *)
  Lemma first_tokens :
    (forall ro l s ro', GSeq ro l s ro' -> l = [] \/ can_atom l = true) /\
    (forall ro l c ro', GChoice ro l c ro' -> can_atom l = true) /\
    (forall ro l a ro', GRatom ro l a ro' -> can_atom l = true) /\
    (forall ro l a ro', GAtom ro l a ro' -> can_atom l = true).
  Proof.
    apply gram_mutind; intros.
    - now left.
    - right. destruct l1 as [|t l1]; [discriminate|]. exact H.
    - assumption.
    - destruct l1 as [|t l1]; [discriminate|]. exact H.
    - assumption.
    - destruct l as [|t l]; [discriminate|]. exact H.
    - cbn. now rewrite e.
    - cbn. now rewrite e.
    - cbn. destruct i0 as [-> | ->]; reflexivity.
    - cbn. destruct i0 as [-> | ->]; reflexivity.
    - cbn. now rewrite e.
    - cbn. now rewrite e.
    - cbn. now rewrite e.
    - cbn. now rewrite e.
  Qed.

  Lemma can_atom_app l r : l <> [] -> can_atom (l ++ r) = can_atom l.
  Proof. destruct l; [congruence | reflexivity]. Qed.

  Lemma can_atom_not (l : list token) (ty : ttype) : can_atom l = true -> head_ty l = Some ty ->
    ty <> TRep /\ ty <> TOptValue /\ ty <> TChoice /\ ty <> TClosePar /\ ty <> TCloseSq.
  Proof.
    destruct l as [|t l]; [discriminate|]. cbn. intros H [= <-]. destruct (tk_typ t); try discriminate; repeat split; discriminate.
  Qed.

  (** what may follow a complete seq inside brackets or at the end: nothing, or a closing bracket *)
  Definition stop (rest : list token) : Prop :=
    match rest with [] => True | t :: _ => tk_typ t = TClosePar \/ tk_typ t = TCloseSq end.

  Definition not_head (ty : ttype) (l : list token) : Prop := head_ty l <> Some ty.

  Lemma with_rep_plain a rest ro : not_head TRep rest -> with_rep a rest ro = POk (RAtom a false) rest ro.
  Proof.
    unfold with_rep, not_head. destruct rest as [|t rest]; [reflexivity|]. cbn. intros H.
    destruct (ttype_eqb (tk_typ t) TRep) eqn:E; [|reflexivity]. apply ttype_eqb_true in E. congruence.
  Qed.

  Lemma with_rep_rep a rep rest ro : tk_typ rep = TRep -> with_rep a (rep :: rest) ro = POk (RAtom a true) rest ro.
  Proof. unfold with_rep. now intros ->. Qed.

  Lemma skip_optvalue_none rest : not_head TOptValue rest -> skip_optvalue rest = rest.
  Proof.
    unfold skip_optvalue, not_head. destruct rest as [|t rest]; [reflexivity|]. cbn. intros H.
    destruct (ttype_eqb (tk_typ t) TOptValue) eqn:E; [|reflexivity]. apply ttype_eqb_true in E. congruence.
  Qed.

  (** the parser's answer on an atom (before the optional '...') *)
  Definition atom_result (a : atom) (rest : list token) (ro' : bool) : pres ratom :=
    match a with ADD => POk (RAtom ADD false) rest true | _ => with_rep a rest ro' end.

  Lemma p_atom_par f o toks1 ro : tk_typ o = TOpenPar ->
    p_atom (S f) (o :: toks1) ro =
    match p_seq f true toks1 ro with
    | POk s0 toks2 ro2 =>
      match toks2 with
      | t2 :: toks3 => if ttype_eqb (tk_typ t2) TClosePar then with_rep (APar s0) toks3 ro2 else PErr msg_expect_par toks2
      | [] => PErr msg_expect_par toks2
      end
    | PErr m r => PErr m r
    | PFuel => PFuel
    end.
  Proof. intros Ho. cbn [Parser.p_atom]. rewrite Ho. reflexivity. Qed.

  Lemma p_atom_sq f o toks1 ro : tk_typ o = TOpenSq ->
    p_atom (S f) (o :: toks1) ro =
    match p_seq f true toks1 ro with
    | POk s0 toks2 ro2 =>
      match toks2 with
      | t2 :: toks3 => if ttype_eqb (tk_typ t2) TCloseSq then with_rep (ASq s0) toks3 ro2 else PErr msg_expect_sq toks2
      | [] => PErr msg_expect_sq toks2
      end
    | PErr m r => PErr m r
    | PFuel => PFuel
    end.
  Proof. intros Ho. cbn [Parser.p_atom]. rewrite Ho. reflexivity. Qed.

  Theorem parser_complete :
    (forall ro l s ro', GSeq ro l s ro' -> forall rest, can_atom rest = false -> not_head TChoice rest ->
       not_head TRep rest -> not_head TOptValue rest ->
       exists f0, forall f, f0 <= f -> forall req, (req = true -> s <> SNil) -> p_seq f req (l ++ rest) ro = POk s rest ro') /\
    (forall ro l c ro', GChoice ro l c ro' -> forall rest, not_head TChoice rest -> not_head TRep rest -> not_head TOptValue rest ->
       exists f0, forall f, f0 <= f -> p_choice f (l ++ rest) ro = POk c rest ro') /\
    (forall ro l a ro', GRatom ro l a ro' -> forall rest, not_head TRep rest -> not_head TOptValue rest ->
       exists f0, forall f, f0 <= f -> p_atom f (l ++ rest) ro = POk a rest ro') /\
    (forall ro l a ro', GAtom ro l a ro' -> forall rest, not_head TOptValue rest ->
       exists f0, forall f, f0 <= f -> p_atom f (l ++ rest) ro = atom_result a rest ro').
  Proof.
    apply gram_mutind.
    - (* empty seq *)
      intros ro rest Hc _ _ _. exists 1. intros f Hf req Hreq. destruct f as [|f]; [lia|]. rewrite p_seq_unfold.
      cbn [List.app]. rewrite Hc. destruct req; [exfalso; now apply Hreq|]. reflexivity.
    - (* choice then seq *)
      intros ro l1 c ro1 l2 s ro2 G1 IH1 G2 IH2 rest Hc Hn1 Hn2 Hn3.
      destruct first_tokens as (Fs & Fc & _).
      pose proof (Fc _ _ _ _ G1) as Hl1.
      assert (Hfollow : can_atom (l2 ++ rest) = (match l2 with [] => false | _ => true end) /\
                        not_head TChoice (l2 ++ rest) /\ not_head TRep (l2 ++ rest) /\ not_head TOptValue (l2 ++ rest)).
      { destruct (Fs _ _ _ _ G2) as [->|Hl2]; [cbn [List.app]; auto|].
        destruct l2 as [|t l2]; [discriminate|]. rewrite can_atom_app by discriminate. rewrite Hl2.
        destruct (can_atom_not (t :: l2) (tk_typ t) Hl2 eq_refl) as (A & B & C & _).
        unfold not_head. cbn. repeat split; congruence. }
      destruct Hfollow as (Hca & F1 & F2 & F3).
      destruct (IH1 (l2 ++ rest) F1 F2 F3) as (f1 & H1).
      destruct (IH2 rest Hc Hn1 Hn2 Hn3) as (f2 & H2).
      exists (S (Nat.max f1 f2)). intros f Hf req _. destruct f as [|f]; [lia|]. rewrite p_seq_unfold.
      assert (Hstart : can_atom ((l1 ++ l2) ++ rest) = true).
      { destruct l1 as [|t l1]; [discriminate|]. exact Hl1. }
      rewrite Hstart, orb_true_r. rewrite <- app_assoc. rewrite (H1 f) by lia.
      rewrite (H2 f ltac:(lia) false ltac:(discriminate)). reflexivity.
    - (* one alternative *)
      intros ro l a ro' G IH rest Hn1 Hn2 Hn3. destruct (IH rest Hn2 Hn3) as (f1 & H1).
      exists (S f1). intros f Hf. destruct f as [|f]; [lia|]. rewrite p_choice_unfold. rewrite (H1 f) by lia.
      destruct rest as [|t rest]; [reflexivity|].
      destruct (ttype_eqb (tk_typ t) TChoice) eqn:E; [|reflexivity]. apply ttype_eqb_true in E. unfold not_head in Hn1. cbn in Hn1. congruence.
    - (* ratom '|' choice *)
      intros ro l1 a ro1 bar l2 c ro2 G1 IH1 Hbar G2 IH2 rest Hn1 Hn2 Hn3.
      assert (B1 : not_head TRep (bar :: l2 ++ rest)) by (unfold not_head; cbn; rewrite Hbar; discriminate).
      assert (B2 : not_head TOptValue (bar :: l2 ++ rest)) by (unfold not_head; cbn; rewrite Hbar; discriminate).
      destruct (IH1 (bar :: l2 ++ rest) B1 B2) as (f1 & H1). destruct (IH2 rest Hn1 Hn2 Hn3) as (f2 & H2).
      exists (S (Nat.max f1 f2)). intros f Hf. destruct f as [|f]; [lia|]. rewrite p_choice_unfold.
      rewrite <- app_assoc. cbn [List.app]. rewrite (H1 f) by lia. rewrite Hbar. cbn [ttype_eqb].
      rewrite (H2 f) by lia. reflexivity.
    - (* atom without '...' *)
      intros ro l a ro' G IH rest Hn2 Hn3. destruct (IH rest Hn3) as (f1 & H1). exists f1. intros f Hf. rewrite (H1 f Hf).
      unfold atom_result. destruct a; try (now apply with_rep_plain). inversion G; subst; reflexivity.
    - (* atom '...' *)
      intros ro l a ro' rep G IH Hne Hrep rest Hn2 Hn3.
      assert (B : not_head TOptValue (rep :: rest)) by (unfold not_head; cbn; rewrite Hrep; discriminate).
      destruct (IH (rep :: rest) B) as (f1 & H1). exists f1. intros f Hf. rewrite <- app_assoc. cbn [List.app]. rewrite (H1 f Hf).
      unfold atom_result. destruct a; try (now apply with_rep_rep). congruence.
    - (* ARG *)
      intros ro t i Ht Hl rest _. exists 1. intros f Hf. destruct f as [|f]; [lia|]. cbn [List.app Parser.p_atom]. now rewrite Ht, Hl.
    - (* OPTIONS *)
      intros t Ht rest _. exists 1. intros f Hf. destruct f as [|f]; [lia|]. cbn [List.app Parser.p_atom]. now rewrite Ht.
    - (* -x / --xx *)
      intros t i Ht Hl rest Hn. exists 1. intros f Hf. destruct f as [|f]; [lia|]. cbn [List.app Parser.p_atom].
      rewrite (skip_optvalue_none rest Hn). destruct Ht as [-> | ->]; now rewrite Hl.
    - (* -x=<v> *)
      intros t v i Ht Hl Hv rest Hn. exists 1. intros f Hf. destruct f as [|f]; [lia|]. cbn [List.app Parser.p_atom].
      assert (E : skip_optvalue (v :: rest) = rest) by (unfold skip_optvalue; now rewrite Hv). rewrite E.
      destruct Ht as [-> | ->]; now rewrite Hl.
    - (* -xyz *)
      intros t x js Ht Hr rest _. exists 1. intros f Hf. destruct f as [|f]; [lia|]. cbn [List.app Parser.p_atom]. now rewrite Ht, Hr.
    - (* -- *)
      intros ro t Ht rest _. exists 1. intros f Hf. destruct f as [|f]; [lia|]. cbn [List.app Parser.p_atom]. now rewrite Ht.
    - (* ( seq ) *)
      intros ro o l s ro' c Ho G IH Hne Hc rest Hn.
      assert (C1 : can_atom (c :: rest) = false) by (cbn; now rewrite Hc).
      assert (C2 : not_head TChoice (c :: rest)) by (unfold not_head; cbn; rewrite Hc; discriminate).
      assert (C3 : not_head TRep (c :: rest)) by (unfold not_head; cbn; rewrite Hc; discriminate).
      assert (C4 : not_head TOptValue (c :: rest)) by (unfold not_head; cbn; rewrite Hc; discriminate).
      destruct (IH (c :: rest) C1 C2 C3 C4) as (f1 & H1). exists (S f1). intros f Hf. destruct f as [|f]; [lia|].
      cbn [List.app]. rewrite (p_atom_par f o _ ro Ho).
      rewrite <- app_assoc. cbn [List.app]. rewrite (H1 f ltac:(lia) true (fun _ => Hne)). now rewrite Hc.
    - (* [ seq ] *)
      intros ro o l s ro' c Ho G IH Hne Hc rest Hn.
      assert (C1 : can_atom (c :: rest) = false) by (cbn; now rewrite Hc).
      assert (C2 : not_head TChoice (c :: rest)) by (unfold not_head; cbn; rewrite Hc; discriminate).
      assert (C3 : not_head TRep (c :: rest)) by (unfold not_head; cbn; rewrite Hc; discriminate).
      assert (C4 : not_head TOptValue (c :: rest)) by (unfold not_head; cbn; rewrite Hc; discriminate).
      destruct (IH (c :: rest) C1 C2 C3 C4) as (f1 & H1). exists (S f1). intros f Hf. destruct f as [|f]; [lia|].
      cbn [List.app]. rewrite (p_atom_sq f o _ ro Ho).
      rewrite <- app_assoc. cbn [List.app]. rewrite (H1 f ltac:(lia) true (fun _ => Hne)). now rewrite Hc.
  Qed.

  (** * An answer that is not "out of fuel" does not depend on the fuel *)
  Definition settledA {A} (r : pres A) : Prop := r <> PFuel.

  Theorem parser_mono : forall f,
    (forall toks ro, settledA (p_atom f toks ro) -> p_atom (S f) toks ro = p_atom f toks ro) /\
    (forall toks ro, settledA (p_choice f toks ro) -> p_choice (S f) toks ro = p_choice f toks ro) /\
    (forall req toks ro, settledA (p_seq f req toks ro) -> p_seq (S f) req toks ro = p_seq f req toks ro).
  Proof.
    unfold settledA. induction f as [|f (IHa & IHc & IHs)]; [repeat split; intros; cbn in *; congruence|].
    assert (Ha : forall toks ro, p_atom (S f) toks ro <> PFuel -> p_atom (S (S f)) toks ro = p_atom (S f) toks ro).
    { intros toks ro. destruct toks as [|t toks1]; [reflexivity|].
      destruct (tk_typ t) eqn:Et.
      all: try (cbn [Parser.p_atom]; rewrite Et; reflexivity).
      - rewrite (p_atom_par (S f) t toks1 ro Et), (p_atom_par f t toks1 ro Et). intros H.
        rewrite IHs; [reflexivity|]. intros E. rewrite E in H. congruence.
      - rewrite (p_atom_sq (S f) t toks1 ro Et), (p_atom_sq f t toks1 ro Et). intros H.
        rewrite IHs; [reflexivity|]. intros E. rewrite E in H. congruence. }
    assert (Hc : forall toks ro, p_choice (S f) toks ro <> PFuel -> p_choice (S (S f)) toks ro = p_choice (S f) toks ro).
    { intros toks ro. rewrite (p_choice_unfold _ _ (S f)), (p_choice_unfold _ _ f). intros H.
      assert (E1 : Parser.p_atom lookup_opt lookup_arg f toks ro <> PFuel) by (intros E; rewrite E in H; congruence).
      rewrite (IHa _ _ E1). destruct (Parser.p_atom lookup_opt lookup_arg f toks ro) as [a toks1 ro1|m r0|]; try reflexivity.
      destruct toks1 as [|t toks2]; [reflexivity|]. destruct (ttype_eqb (tk_typ t) TChoice); [|reflexivity].
      assert (E2 : Parser.p_choice lookup_opt lookup_arg f toks2 ro1 <> PFuel) by (intros E; rewrite E in H; congruence).
      now rewrite (IHc _ _ E2). }
    split; [exact Ha|]. split; [exact Hc|].
    intros req toks ro. rewrite (p_seq_unfold _ _ (S f)), (p_seq_unfold _ _ f). intros H.
    destruct (req || can_atom toks); [|reflexivity].
    assert (E1 : Parser.p_choice lookup_opt lookup_arg f toks ro <> PFuel) by (intros E; rewrite E in H; congruence).
    rewrite (IHc _ _ E1). destruct (Parser.p_choice lookup_opt lookup_arg f toks ro) as [c toks1 ro1|m r0|]; try reflexivity.
    assert (E2 : Parser.p_seq lookup_opt lookup_arg f false toks1 ro1 <> PFuel) by (intros E; rewrite E in H; congruence).
    now rewrite (IHs _ _ _ E2).
  Qed.

  Lemma p_seq_mono f f' req toks ro : f <= f' -> p_seq f req toks ro <> PFuel -> p_seq f' req toks ro = p_seq f req toks ro.
  Proof.
    induction 1 as [|f' Hle IH]; [reflexivity|]. intros H. destruct (parser_mono f') as (_ & _ & M).
    rewrite M; [now apply IH | rewrite (IH H); exact H].
  Qed.

  (** * The parser accepts exactly what the grammar derives *)
  Theorem parse_tokens_iff_grammar speclen toks e :
    parse_tokens lookup_opt lookup_arg speclen toks = ParseOk e <-> exists ro', GSeq false toks e ro'.
  Proof.
    split.
    - unfold parse_tokens.
      destruct (p_seq (parse_fuel toks) false toks false) as [s r ro'|m r|] eqn:Hp; try discriminate.
      destruct r; [|discriminate]. intros [= <-].
      destruct (parser_sound (parse_fuel toks)) as (_ & _ & S). destruct (S _ _ _ _ _ _ Hp) as (l & E & G & _).
      rewrite app_nil_r in E. subst l. eauto.
    - intros [ro' G]. destruct parser_complete as (C & _).
      destruct (C false toks e ro' G [] eq_refl) as (f0 & H0); try (unfold not_head; cbn; discriminate).
      pose proof (parse_tokens_total lookup_opt lookup_arg speclen toks) as T. unfold parse_tokens in *.
      set (F := Nat.max f0 (parse_fuel toks)).
      assert (E : p_seq (parse_fuel toks) false toks false = POk e [] ro').
      { assert (NF : p_seq (parse_fuel toks) false toks false <> PFuel).
        { intros X. rewrite X in T. congruence. }
        rewrite <- (p_seq_mono (parse_fuel toks) F false toks false ltac:(unfold F; lia) NF).
        specialize (H0 F ltac:(unfold F; lia) false ltac:(discriminate)). now rewrite app_nil_r in H0. }
      now rewrite E.
  Qed.
End Grammar.

(** * A spec compiles iff it lexes and the grammar derives its tokens *)
From MowCli Require Import Nfa Values Flow Cmd NfaProofs CompileProofs.

Theorem compile_iff_grammar opts args spec :
  (exists i, compile opts args spec = IOk i) <->
  (exists toks e ro', tokenize spec = LexOk toks /\ GSeq (lookup_name opts) (lookup_name args) false toks e ro').
Proof.
  unfold compile. split.
  - intros [i H]. destruct (tokenize spec) as [toks|m p|] eqn:Hl; try discriminate.
    destruct (parse_tokens (lookup_name opts) (lookup_name args) (length spec) toks) as [e|m p|] eqn:Hp; try discriminate.
    apply parse_tokens_iff_grammar in Hp as [ro' G]. eauto.
  - intros (toks & e & ro' & Hl & G). rewrite Hl.
    assert (Hp : parse_tokens (lookup_name opts) (lookup_name args) (length spec) toks = ParseOk e)
      by (apply parse_tokens_iff_grammar; eauto).
    rewrite Hp. pose proof (thompson_ok (length opts) e) as Ht.
    destruct (thompson (length opts) e) as [start g]. destruct Ht as [Hw Hs].
    destruct (prepare_ok start g Hw Hs) as (g' & -> & _). eauto.
Qed.
