(** Reference semantics (DESIGN section 4): reading a command line into occurrences and
    positionals, the language of a spec as a regular expression over those symbols modulo
    commutation of adjacent occurrences of different options, sentences and derivations.
    Deliberately independent of the automaton, of shortcut elimination, of transition order
    and of the token surgery in option.go. *)
From MowCli Require Import Base Parser Matchers.

(** What the reading needs to know about the declared options *)
Record rdecl := mkRD {
  rd_lookup : str -> option nat;   (* option name, with dashes, to option *)
  rd_isflag : nat -> bool;
  rd_env : nat -> bool             (* environment-backed *)
}.

(** A symbol with the tokens it accounts for ([src]): a folded token is carried by its first
    occurrence, the others carry none. *)
Inductive sym :=
| O (o : nat) (v : str) (src : list str)     (* occurrence of option o with value v *)
| P (t : str)                                (* positional *)
| DDTok                                      (* the command line's first standalone "--" *)
| Bad (t : str)                              (* a token that cannot be read in option mode: undeclared
                                                name, empty value, missing or dash-prefixed value *)
| Raw (t : str).                             (* the tokens after it, not read *)

Section Read.
  Variable D : rdecl.

  (** the letters of a folded short token, left to right; [first] = tokens to attribute to the
      first occurrence. Result: symbols and the number of following tokens used (0 or 1). *)
  Fixpoint read_letters (letters : str) (next : option str) (src : list str)
    : option (list sym * bool) :=
    match letters with
    | [] => Some ([], false)
    | c :: rest =>
      match rd_lookup D [c_dash; c] with
      | None => None
      | Some o =>
        if rd_isflag D o then
          match read_letters rest next [] with
          | Some (syms, used) => Some (O o s_true src :: syms, used)
          | None => None
          end
        else
          match rest with
          | _ :: _ => Some ([O o rest src], false)
          | [] =>
            match next with
            | Some v => if dashed v then None else Some ([O o v (src ++ [v])], true)
            | None => None
            end
          end
      end
    end.

  (** one token in option mode *)
  Definition read_token (t : str) (next : option str) : option (list sym * bool) :=
    if prefix_b s_dd t then
      let (name, v) := split_eq t in
      match rd_lookup D name with
      | None => None
      | Some o =>
        match v with
        | Some [] => None
        | Some value => Some ([O o value [t]], false)
        | None =>
          if rd_isflag D o then Some ([O o s_true [t]], false)
          else match next with
               | Some value => if dashed value then None else Some ([O o value [t; value]], true)
               | None => None
               end
        end
      end
    else
      match t with
      | d :: n :: e :: value =>
        if Ascii.eqb e c_eq then
          match rd_lookup D [d; n] with
          | Some o => match value with [] => None | _ => Some ([O o value [t]], false) end
          | None => None
          end
        else read_letters (n :: e :: value) next [t]
      | _ :: letters => read_letters letters next [t]
      | [] => None
      end.

  (** reading stops at the first unreadable token: nothing in option mode can consume it, so
      what follows only matters if a spec-level "--" turns the rest into positionals *)
  Fixpoint read (w : list str) : list sym :=
    match w with
    | [] => []
    | t :: rest =>
      if str_eqb t s_dd then DDTok :: map P rest
      else if str_eqb t s_dash || negb (dashed t) then P t :: read rest
      else
        match read_token t (hd_error rest) with
        | None => Bad t :: map Raw rest
        | Some (syms, used) =>
          (* when the next token was used as a value, skip it *)
          syms ++ (if used then match rest with _ :: r2 => read r2 | [] => [] end else read rest)
        end
    end.
End Read.

(** * Matching a spec against a symbol sequence *)

Inductive mode := Greedy (group_by_env : bool) | Ideal.

(** three-valued verdict: [Unclaimed] = no derivation found, and some branch met the
    situation the property does not speak about (a spec "--" crossed while occurrences of the
    current run were still unmatched) *)
Inductive verdict := Yes | No | Unclaimed.
Definition vor (a : verdict) (b : unit -> verdict) : verdict :=
  match a with
  | Yes => Yes
  | No => b tt
  | Unclaimed => match b tt with Yes => Yes | _ => Unclaimed end
  end.

(** expected bindings per variable (C02); [None] = unconstrained (C01) *)
Definition target := option (list (key * list str)).

Record rstate := mkRS { rs_u : list sym; rs_ro : bool; rs_t : target }.

Fixpoint expect_pop (k : key) (v : str) (l : list (key * list str)) : option (list (key * list str)) :=
  match l with
  | [] => None
  | (k', vs) :: l' =>
    if key_eqb k k' then
      match vs with
      | v' :: vs' => if str_eqb v v' then Some ((k', vs') :: l') else None
      | [] => None
      end
    else option_map (cons (k', vs)) (expect_pop k v l')
  end.

(** record the binding (k, v): allowed iff it is the next expected value of k *)
Definition bind (k : key) (v : str) (t : target) : option target :=
  match t with
  | None => Some None
  | Some l => option_map Some (expect_pop k v l)
  end.

Definition target_done (t : target) : bool :=
  match t with
  | None => true
  | Some l => forallb (fun p : key * list str => match snd p with [] => true | _ => false end) l
  end.

(** drop the "--" token when it is at the head *)
Definition rstrip (st : rstate) : rstate :=
  match rs_u st with
  | DDTok :: u => mkRS u true (rs_t st)
  | _ => st
  end.

(** first occurrence of [o] in the leading run: its value and the sequence without it *)
Fixpoint take_occ (o : nat) (u : list sym) : option (str * list sym) :=
  match u with
  | O o' v src :: u' =>
    if Nat.eqb o o' then Some (v, u')
    else match take_occ o u' with
         | Some (v', u'') => Some (v', O o' v src :: u'')
         | None => None
         end
  | _ => None
  end.

Definition sym_size (u : list sym) : nat := length u.

Definition progress (a b : rstate) : bool :=
  (sym_size (rs_u b) <? sym_size (rs_u a)) || (negb (rs_ro a) && rs_ro b).

(** the current run is empty: the head is not an occurrence *)
Definition run_empty (u : list sym) : bool :=
  match u with O _ _ _ :: _ => false | _ => true end.

Definition retokenize (u : list sym) : list str :=
  flat_map (fun s => match s with
                     | O _ _ src => src
                     | P t | Bad t | Raw t => [t]
                     | DDTok => [s_dd]
                     end) u.

Fixpoint seq_has_dd (s : seq) : bool :=
  match s with
  | SNil => false
  | SCons c s' => choice_has_dd c || seq_has_dd s'
  end
with choice_has_dd (c : choice) : bool :=
  match c with
  | COne a => ratom_has_dd a
  | CAlt a c' => ratom_has_dd a || choice_has_dd c'
  end
with ratom_has_dd (a : ratom) : bool :=
  match a with RAtom a _ => atom_has_dd a end
with atom_has_dd (a : atom) : bool :=
  match a with
  | ADD => true
  | APar s | ASq s => seq_has_dd s
  | _ => false
  end.

Section Match.
  Variable D : rdecl.
  Variable md : mode.
  Variable nopts : nat.

  Definition k_opt (o : nat) (st0 : rstate) (k : rstate -> verdict) : verdict :=
    let st := rstrip st0 in
    let fallback := if rd_env D o then k st else No in
    if rs_ro st then fallback
    else match take_occ o (rs_u st) with
         | Some (v, u') =>
           match bind (KO o) v (rs_t st) with
           | Some t' => k (mkRS u' false t')
           | None => No
           end
         | None => fallback
         end.

  Definition k_arg (i : nat) (st0 : rstate) (k : rstate -> verdict) : verdict :=
    let st := rstrip st0 in
    match rs_u st with
    | P t :: u' =>
      match bind (KA i) t (rs_t st) with
      | Some t' => k (mkRS u' (rs_ro st) t')
      | None => No
      end
    | _ => No
    end.

  (** greedy group: take every occurrence of a listed option found in the current run *)
  Fixpoint greedy_take (fuel : nat) (is : list nat) (u : list sym) (t : target) (taken : bool)
    : option (list sym * target * bool) :=
    match fuel with
    | 0 => Some (u, t, taken)
    | S f =>
      match first_some (fun o => match take_occ o u with
                                 | Some (v, u') => Some (o, v, u')
                                 | None => None
                                 end) is with
      | Some (o, v, u') =>
        match bind (KO o) v t with
        | Some t' => greedy_take f is u' t' true
        | None => None
        end
      | None => Some (u, t, taken)
      end
    end.

  Definition k_group (is : list nat) (st0 : rstate) (k : rstate -> verdict) : verdict :=
    let st := rstrip st0 in
    if rs_ro st then No else
    match rs_u st with
    | [] => No
    | _ =>
      match md with
      | Greedy by_env =>
        match greedy_take (S (length (rs_u st))) is (rs_u st) (rs_t st) false with
        | Some (u', t', true) => k (mkRS u' false t')
        | Some (_, _, false) =>
          if by_env && existsb (rd_env D) is then k st else No
        | None => No
        end
      | Ideal =>
        (fix loop (n : nat) (st : rstate) : verdict :=
           match n with
           | 0 => No
           | S n' =>
             (fix alts (os : list nat) : verdict :=
                match os with
                | [] => No
                | o :: os' =>
                  vor (match take_occ o (rs_u st) with
                       | Some (v, u') =>
                         match bind (KO o) v (rs_t st) with
                         | Some t' => let st' := mkRS u' false t' in
                                      vor (k st') (fun _ => loop n' st')
                         | None => No
                         end
                       | None => No
                       end) (fun _ => alts os')
                end) is
           end) (S (length (rs_u st))) st
      end
    end.

  (** spec-level "--" *)
  Definition k_dd (st0 : rstate) (k : rstate -> verdict) : verdict :=
    let st := rstrip st0 in
    if rs_ro st then k st
    else if run_empty (rs_u st) then k (mkRS (map P (retokenize (rs_u st))) true (rs_t st))
    else Unclaimed.

  Fixpoint r_seq (s : seq) (fuel : nat) (st : rstate) (k : rstate -> verdict) {struct s} : verdict :=
    match s with
    | SNil => k st
    | SCons c s' => r_choice c fuel st (fun st' => r_seq s' fuel st' k)
    end
  with r_choice (c : choice) (fuel : nat) (st : rstate) (k : rstate -> verdict) {struct c} : verdict :=
    match c with
    | COne a => r_ratom a fuel st k
    | CAlt a c' => vor (r_ratom a fuel st k) (fun _ => r_choice c' fuel st k)
    end
  with r_ratom (a : ratom) (fuel : nat) (st : rstate) (k : rstate -> verdict) {struct a} : verdict :=
    match a with
    | RAtom a false => r_atom a fuel st k
    | RAtom a true =>
      (* one or more: a further iteration only after progress *)
      (fix loop (n : nat) (st : rstate) : verdict :=
         match n with
         | 0 => No
         | S n' => r_atom a fuel st
                          (fun st' => vor (k st') (fun _ => if progress st st' then loop n' st' else No))
         end) fuel st
    end
  with r_atom (a : atom) (fuel : nat) (st : rstate) (k : rstate -> verdict) {struct a} : verdict :=
    match a with
    | AArg i => k_arg i st k
    | AOptions => k_group (List.seq 0 nopts) st k
    | AOpt o => k_opt o st k
    | AGroup is => k_group is st k
    | ADD => k_dd st k
    | APar s => r_seq s fuel st k
    | ASq s => vor (r_seq s fuel st k) (fun _ => k st)
    end.

  Definition final (st0 : rstate) : verdict :=
    let st := rstrip st0 in
    match rs_u st with
    | [] => if target_done (rs_t st) then Yes else No
    | _ => No
    end.

  (** is [w] a sentence of [e] (with [t = None]); is [t] a derivation of it (otherwise) *)
  Definition r_match (e : seq) (w : list str) (t : target) : verdict :=
    let u := read D w in
    (* a spec with "--" is only claimed on command lines that read completely: the code may
       consume part of an unreadable token before the "--" turns the rest into positionals *)
    if seq_has_dd e && existsb (fun s => match s with Bad _ => true | _ => false end) u then Unclaimed
    else r_seq e (length u + 2) (mkRS u false t) final.
End Match.

(** * Exclusions of the property text, made precise (DESIGN 4.5) *)

(** -h / --help before any "--" (owned by C14) *)
Fixpoint has_help (w : list str) : bool :=
  match w with
  | [] => false
  | t :: rest => if str_eqb t s_dd then false
                 else str_eqb t (lit "-h") || str_eqb t (lit "--help") || has_help rest
  end.

(** a folded token carrying '=' after a flag: -f1..fk then '=' or then a valued option and '=' *)
Section Q1.
  Variable D : rdecl.
  Fixpoint q1_walk (letters : str) (j : nat) : bool :=
    match letters with
    | [] => false
    | c :: rest =>
      if Ascii.eqb c c_eq then 3 <=? j
      else match rd_lookup D [c_dash; c] with
           | None => false
           | Some o =>
             if rd_isflag D o then q1_walk rest (S j)
             else (2 <=? j) && match rest with e :: _ => Ascii.eqb e c_eq | [] => false end
           end
    end.
  Definition q1_token (t : str) : bool :=
    match t with
    | d :: rest => Ascii.eqb d c_dash && negb (prefix_b s_dd t) && q1_walk rest 1
    | [] => false
    end.
  (** only tokens read in option mode matter *)
  Fixpoint has_q1 (w : list str) : bool :=
    match w with
    | [] => false
    | t :: rest => if str_eqb t s_dd then false else q1_token t || has_q1 rest
    end.
End Q1.
