//go:build verif

package matcher

import "github.com/jawher/mow.cli/internal/container"

// VerifDescribe exposes the kind of a matcher and the containers it refers to.
// Only compiled with the `verif` build tag; used by the verification harness.
//
// kind is one of "arg", "opt", "grp", "dd", "eps" ("" for an unknown matcher).
func VerifDescribe(m Matcher) (kind string, containers []*container.Container) {
	switch x := m.(type) {
	case *arg:
		return "arg", []*container.Container{x.arg}
	case *opt:
		return "opt", []*container.Container{x.theOne}
	case *options:
		return "grp", append([]*container.Container(nil), x.options...)
	case optsEnd:
		return "dd", nil
	case shortcut:
		return "eps", nil
	}
	return "", nil
}
