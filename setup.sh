#!/bin/sh
# Build the framework from files on disk only: Coq development (full .vo build), extraction,
# OCaml driver, Go harness (plain and -race) against /repo's working tree.
set -e
cd "$(dirname "$0")"
export GOFLAGS=-mod=mod GOPROXY=off GOSUMDB=off GOTOOLCHAIN=local
python3 - <<'PY'
import sys
sys.path.insert(0, "tools")
import core
out, secs = core.build_all(clean=False, race=True)
print("build ok in %.1fs" % secs)
PY
