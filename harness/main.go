// Command harness is the implementation-side observation harness for mow.cli.
// It implements the line protocol described in PROTOCOL.md.
//
// Build:  go build -tags verif -o harness .
//
//	go build -tags verif -race -o harness_race .     (for op "conc")
package main

import (
	"bufio"
	"bytes"
	"encoding/json"
	"errors"
	"flag"
	"fmt"
	"io"
	"os"
	"runtime"
	"runtime/debug"
	"strconv"
	"strings"
	"sync"
	"time"

	cli "github.com/jawher/mow.cli"
)

/******************************************************************************/
/* Byte strings (Latin-1 convention)                                          */
/******************************************************************************/

// B is a byte string. In JSON, byte b is transported as code point U+00bb.
type B string

// l1dec maps each rune of a decoded JSON string to one byte.
func l1dec(s string) string {
	bs := make([]byte, 0, len(s))
	for _, r := range s {
		bs = append(bs, byte(r))
	}
	return string(bs)
}

// l1enc maps each byte of a Go byte string to one rune.
func l1enc(s string) string {
	rs := make([]rune, len(s))
	for i := 0; i < len(s); i++ {
		rs[i] = rune(s[i])
	}
	return string(rs)
}

func marshalNoHTML(v interface{}) ([]byte, error) {
	var buf bytes.Buffer
	enc := json.NewEncoder(&buf)
	enc.SetEscapeHTML(false)
	if err := enc.Encode(v); err != nil {
		return nil, err
	}
	return bytes.TrimRight(buf.Bytes(), "\n"), nil
}

// UnmarshalJSON decodes a JSON string and converts it to bytes.
func (b *B) UnmarshalJSON(data []byte) error {
	var s string
	if err := json.Unmarshal(data, &s); err != nil {
		return err
	}
	*b = B(l1dec(s))
	return nil
}

// MarshalJSON encodes the byte string with the Latin-1 convention.
func (b B) MarshalJSON() ([]byte, error) {
	return marshalNoHTML(l1enc(string(b)))
}

func bs(ss []string) []B {
	res := make([]B, len(ss))
	for i, s := range ss {
		res[i] = B(s)
	}
	return res
}

func strs(in []B) []string {
	res := make([]string, len(in))
	for i, s := range in {
		res[i] = string(s)
	}
	return res
}

/******************************************************************************/
/* Input                                                                      */
/******************************************************************************/

type customCfg struct {
	IsBool   bool `json:"isbool"`
	Clear    bool `json:"clear"`
	IsDef    bool `json:"isdef"`
	IsDefVal bool `json:"isdefval"`
	// IsBoolFalse: the IsBoolFlag method is present (isbool) but answers false: the value then takes a
	// value like any other option
	IsBoolFalse bool `json:"isboolfalse"`
	// MapKind: the value is a Go map with value receivers (not comparable, so unusable as a map key); only
	// with isbool=false and isdef=false
	MapKind bool `json:"mapkind"`
}

type declSpec struct {
	T      string     `json:"t"`
	Kind   string     `json:"kind"`
	Name   B          `json:"name"`
	Desc   B          `json:"desc"`
	Env    B          `json:"env"`
	Hide   bool       `json:"hide"`
	Def    []B        `json:"def"`
	Sbu    bool       `json:"sbu"`
	Ptr    bool       `json:"ptr"`
	Custom *customCfg `json:"custom"`
	// DefShare: multi-valued declarations of one kind naming the same key are given the very same default slice
	// (a key starting with "G:" is shared by all the applications of the process)
	// (as a user who reuses one variable for several defaults would)
	DefShare string `json:"defshare"`
	// DestShare: declarations of one case naming the same key are bound to the very same destination: one *bool for
	// the ...Ptr forms of kind bool (implies ptr), one flag.Value object for kind custom
	DestShare string `json:"destshare"`
	// Late (a declaration of the root, in a case with "before"): the declaration is made on the application object only
	// after its first run
	Late bool `json:"late"`
	// Conv: declare through the positional convenience API (cmd.BoolOpt(name, value, desc), ...); only
	// honoured when the declaration has no EnvVar, HideValue or SetByUser, which that API cannot express
	Conv bool `json:"conv"`
}

type hookSpec struct {
	K string `json:"k"`
	V int    `json:"v"`
	N int    `json:"n"`
	// Rt (with k = "panic"): fail through a genuine Go run-time error instead of an explicit panic
	// (an index out of range at index 1000+v of an empty slice, reported as "user:<v>")
	Rt bool `json:"rt"`
	// Nc (with k = "panic"): the value panicked with is of a type that is not comparable (UserPanicNC{v}, a slice)
	Nc bool `json:"nc"`
}

type cmdSpec struct {
	Name     B          `json:"name"`
	Desc     B          `json:"desc"`
	LongDesc B          `json:"longdesc"`
	Hidden   bool       `json:"hidden"`
	Spec     B          `json:"spec"`
	Policy   *int       `json:"policy"`
	// PolicyLate: ErrorHandling is assigned after the sub-commands were declared (they copy the field when they
	// are created, so they do not inherit it)
	PolicyLate bool `json:"policy_late"`
	Decls    []declSpec `json:"decls"`
	Before   *hookSpec  `json:"before"`
	Action   *hookSpec  `json:"action"`
	After    *hookSpec  `json:"after"`
	Subs     []*cmdSpec `json:"subs"`
	// Late (a direct sub-command of the root, in a case with "before"): the sub-command is declared on the application
	// object only after its first run
	Late bool `json:"late"`
}

type versionSpec struct {
	Name B `json:"name"`
	Text B `json:"text"`
	// Last: Version is called after the root's other declarations instead of before them
	Last bool `json:"last"`
	// Again: Version is called a second time, right after the first call, with these arguments
	Again *struct {
		Name B `json:"name"`
		Text B `json:"text"`
	} `json:"again"`
}

type matcherSpec struct {
	K  string `json:"k"`
	I  int    `json:"i"`
	Is []int  `json:"is"`
}

type request struct {
	Op string          `json:"op"`
	ID json.RawMessage `json:"id"`

	// run / compile / match
	Env     map[string]B `json:"env"`
	Version *versionSpec `json:"version"`
	Root    *cmdSpec     `json:"root"`
	Argv    []B          `json:"argv"`
	Repeat  int          `json:"repeat"`
	// Before: an earlier life of the same application object: its root is first given this spec and run on this
	// command line (whatever happens is swallowed), then the root's Spec field is assigned the case's spec and the
	// case proper is run
	Before *struct {
		Spec B   `json:"spec"`
		Argv []B `json:"argv"`
	} `json:"before"`
	// Argv0: what is passed to Run as args[0] (the program name as the shell gives it); default: the root's name
	Argv0 *B `json:"argv0"`

	// lex / compile / match
	Spec  B            `json:"spec"`
	Decls []declSpec   `json:"decls"`
	M     *matcherSpec `json:"m"`
	Args  []B          `json:"args"`
	Ro    bool         `json:"ro"`

	// oracle
	Strs []B `json:"strs"`

	// conc
	Cases  []*request `json:"cases"`
	Rounds *int       `json:"rounds"`
}

/******************************************************************************/
/* Output                                                                     */
/******************************************************************************/

type runOut struct {
	ID      json.RawMessage `json:"id,omitempty"`
	Outcome string          `json:"outcome"`
	Err     *string         `json:"err"`
	Code    *int            `json:"code"`
	Panic   *B              `json:"panic"`
	Trace   []B             `json:"trace"`
	Stderr  *[]B            `json:"stderr,omitempty"`
	Values  map[string][]B  `json:"values"`
	Sbu     map[string]bool `json:"sbu"`
	Logs    map[string][]B  `json:"logs"`
	// Stdout: what the library wrote to its OUTPUT stream (absent when nothing), same line processing as stderr
	Stdout *[]B `json:"stdout,omitempty"`
	// ErrLine: when Run returned an error, whether the first line of the error stream is "Error: " followed
	// by that error's own text and a newline, byte for byte
	ErrLine *bool `json:"errline,omitempty"`
}

type errOut struct {
	ID    json.RawMessage `json:"id"`
	Error string          `json:"error"`
}

type panicOut struct {
	ID    json.RawMessage `json:"id"`
	Panic B               `json:"panic"`
}

type timeoutOut struct {
	ID      json.RawMessage `json:"id"`
	Outcome string          `json:"outcome"`
}

type tokenOut struct {
	T B   `json:"t"`
	V B   `json:"v"`
	P int `json:"p"`
}

type lexOkOut struct {
	ID     json.RawMessage `json:"id"`
	Ok     bool            `json:"ok"`
	Tokens []tokenOut      `json:"tokens"`
}

type failOut struct {
	ID  json.RawMessage `json:"id"`
	Ok  bool            `json:"ok"`
	Msg B               `json:"msg"`
	Pos int             `json:"pos"`
}

type stateOut struct {
	Term bool            `json:"term"`
	Tr   [][]interface{} `json:"tr"`
}

type compileOkOut struct {
	ID    json.RawMessage `json:"id"`
	Ok    bool            `json:"ok"`
	Spec  B               `json:"spec"`
	Graph []stateOut      `json:"graph"`
}

type matchOut struct {
	ID    json.RawMessage `json:"id"`
	Ok    bool            `json:"ok"`
	Rem   []B             `json:"rem"`
	Ro    bool            `json:"ro"`
	Binds [][2]B          `json:"binds"`
}

type oracleOut struct {
	ID    json.RawMessage `json:"id"`
	Int   []*string       `json:"int"`
	Float []*string       `json:"float"`
	Bool  []*string       `json:"bool"`
}

type concOut struct {
	ID  json.RawMessage `json:"id"`
	Obs [][]*runOut     `json:"obs"`
}

/******************************************************************************/
/* Custom values                                                              */
/******************************************************************************/

var errCustomFail = errors.New("custom-fail")

// core is shared by the 8 instrumented flag.Value types
type core struct {
	log       []string
	isDefVal  bool
	boolFalse bool
}

func (c *core) Set(s string) error {
	c.log = append(c.log, "S:"+s)
	if strings.HasPrefix(s, "bad") {
		return errCustomFail
	}
	return nil
}

func (c *core) String() string { return "custom" }

func (c *core) doClear() { c.log = append(c.log, "C") }

func (c *core) logCopy() []string {
	return append([]string{}, c.log...)
}

// one type per combination of optional methods: B = IsBoolFlag, C = Clear, D = IsDefault
type cv000 struct{ *core }
type cvB00 struct{ *core }
type cv0C0 struct{ *core }
type cvBC0 struct{ *core }
type cv00D struct{ *core }
type cvB0D struct{ *core }
type cv0CD struct{ *core }
type cvBCD struct{ *core }

func (v cvB00) IsBoolFlag() bool { return !v.core.boolFalse }
func (v cvBC0) IsBoolFlag() bool { return !v.core.boolFalse }
func (v cvB0D) IsBoolFlag() bool { return !v.core.boolFalse }
func (v cvBCD) IsBoolFlag() bool { return !v.core.boolFalse }

func (v cv0C0) Clear() { v.core.doClear() }
func (v cvBC0) Clear() { v.core.doClear() }
func (v cv0CD) Clear() { v.core.doClear() }
func (v cvBCD) Clear() { v.core.doClear() }

func (v cv00D) IsDefault() bool { return v.core.isDefVal }
func (v cvB0D) IsDefault() bool { return v.core.isDefVal }
func (v cv0CD) IsDefault() bool { return v.core.isDefVal }
func (v cvBCD) IsDefault() bool { return v.core.isDefVal }

// the same with a Go map as the value's kind and value receivers (like `type labels map[string]string`): such a
// flag.Value is not comparable and cannot be used as a map key
type mv000 map[string]*core
type mv0C0 map[string]*core

func (m mv000) Set(s string) error { return m["c"].Set(s) }
func (m mv000) String() string     { return "custom" }
func (m mv0C0) Set(s string) error { return m["c"].Set(s) }
func (m mv0C0) String() string     { return "custom" }
func (m mv0C0) Clear()             { m["c"].doClear() }

func newCustom(cfg *customCfg) (flag.Value, *core) {
	if cfg == nil {
		cfg = &customCfg{}
	}
	c := &core{log: []string{}, isDefVal: cfg.IsDefVal, boolFalse: cfg.IsBoolFalse}
	if cfg.MapKind && !cfg.IsBool && !cfg.IsDef {
		if cfg.Clear {
			return mv0C0{"c": c}, c
		}
		return mv000{"c": c}, c
	}
	switch {
	case !cfg.IsBool && !cfg.Clear && !cfg.IsDef:
		return cv000{c}, c
	case cfg.IsBool && !cfg.Clear && !cfg.IsDef:
		return cvB00{c}, c
	case !cfg.IsBool && cfg.Clear && !cfg.IsDef:
		return cv0C0{c}, c
	case cfg.IsBool && cfg.Clear && !cfg.IsDef:
		return cvBC0{c}, c
	case !cfg.IsBool && !cfg.Clear && cfg.IsDef:
		return cv00D{c}, c
	case cfg.IsBool && !cfg.Clear && cfg.IsDef:
		return cvB0D{c}, c
	case !cfg.IsBool && cfg.Clear && cfg.IsDef:
		return cv0CD{c}, c
	default:
		return cvBCD{c}, c
	}
}

/******************************************************************************/
/* Declarations                                                               */
/******************************************************************************/

// harnessError is an error of the harness input itself (bad def, unknown kind, ...)
type harnessError struct{ msg string }

func bad(format string, args ...interface{}) {
	panic(harnessError{fmt.Sprintf(format, args...)})
}

// varRec is a declared variable
type varRec struct {
	key  string          // path + "|" + name verbatim (bytes)
	read func() []string // current observed value
	sbu  *bool           // nil unless sbu requested
	cv   *core           // non nil for custom values
}

func fmtFloat(f float64) string { return strconv.FormatFloat(f, 'g', -1, 64) }

func single(d *declSpec, zero string) string {
	if len(d.Def) == 0 {
		return zero
	}
	return string(d.Def[0])
}

func parseBoolDef(d *declSpec) bool {
	v, err := strconv.ParseBool(single(d, "false"))
	if err != nil {
		bad("bad bool default %q for %q", single(d, "false"), string(d.Name))
	}
	return v
}

func parseIntS(d *declSpec, s string) int {
	v, err := strconv.ParseInt(s, 10, 64)
	if err != nil {
		bad("bad int default %q for %q", s, string(d.Name))
	}
	return int(v)
}

func parseFloatS(d *declSpec, s string) float64 {
	v, err := strconv.ParseFloat(s, 64)
	if err != nil {
		bad("bad float default %q for %q", s, string(d.Name))
	}
	return v
}

// declare executes one declaration on cmd and returns the record of the declared variable.
// Library panics (duplicate names, ...) propagate.
// Default slices shared between declarations. A key starting with "G:" lives for the whole process:
// applications built one after another, or concurrently, from declarations naming the same key are
// given the very same default slice object, as a program that keeps its defaults in package-level
// variables would; any other key is local to one case.
var (
	globalDefsMu sync.Mutex
	globalDefs   = map[string]interface{}{}
)

func shareDef[T any](key string, def []T, local map[string]interface{}) []T {
	if key == "" || local == nil {
		return def
	}
	m := local
	if strings.HasPrefix(key, "G:") {
		globalDefsMu.Lock()
		defer globalDefsMu.Unlock()
		m = globalDefs
	}
	if shared, ok := m[key]; ok {
		if sl, ok := shared.([]T); ok {
			return sl
		}
		return def
	}
	m[key] = def
	return def
}

// boolDest: a fresh *bool, or the one registered under the declaration's destshare key
func boolDest(d *declSpec, shared map[string]interface{}) *bool {
	if d.DestShare == "" || shared == nil {
		return stale(new(bool))
	}
	if p, ok := shared["dest:"+d.DestShare].(*bool); ok {
		return p
	}
	p := new(bool)
	shared["dest:"+d.DestShare] = p
	return p
}

// stale fills a destination that is about to be handed to a ...Ptr declaration with content the program left there
// before: the declaration must replace it by the declared default (or the environment value)
func stale[T any](p *T) *T {
	switch q := any(p).(type) {
	case *bool:
		*q = true
	case *string:
		*q = "stale"
	case *int:
		*q = 99
	case *float64:
		*q = 9.5
	case *[]string:
		*q = []string{"stale", "content"}
	case *[]int:
		*q = []int{9, 8}
	case *[]float64:
		*q = []float64{9.5}
	}
	return p
}

// destOf: a fresh destination, or the one registered under the declaration's destshare key (kinds string, int, strings)
func destOf[T any](d *declSpec, shared map[string]interface{}) *T {
	if d.DestShare == "" || shared == nil {
		return stale(new(T))
	}
	if p, ok := shared["dest:"+d.DestShare].(*T); ok {
		return p
	}
	p := new(T)
	shared["dest:"+d.DestShare] = p
	return p
}

func declare(cmd *cli.Cmd, d *declSpec, path string, sharedDefs map[string]interface{}) *varRec {
	name, desc, env := string(d.Name), string(d.Desc), string(d.Env)
	isOpt := false
	switch d.T {
	case "opt":
		isOpt = true
	case "arg":
	default:
		bad("unknown decl t %q", d.T)
	}
	rec := &varRec{key: path + "|" + name}
	var sbu *bool
	if d.Sbu {
		sbu = stale(new(bool)) // the caller's variable may hold anything before the declaration
		rec.sbu = sbu
	}

	conv := d.Conv && env == "" && !d.Hide && sbu == nil

	switch d.Kind {
	case "bool":
		def := parseBoolDef(d)
		if conv {
			var ptr *bool
			switch {
			case isOpt && (d.Ptr || d.DestShare != ""):
				ptr = boolDest(d, sharedDefs)
				cmd.BoolOptPtr(ptr, name, def, desc)
			case isOpt:
				ptr = cmd.BoolOpt(name, def, desc)
			case d.Ptr || d.DestShare != "":
				ptr = boolDest(d, sharedDefs)
				cmd.BoolArgPtr(ptr, name, def, desc)
			default:
				ptr = cmd.BoolArg(name, def, desc)
			}
			rec.read = func() []string { return []string{strconv.FormatBool(*ptr)} }
			break
		}
		var p cli.BoolParam
		if isOpt {
			p = cli.BoolOpt{Name: name, Desc: desc, EnvVar: env, Value: def, HideValue: d.Hide, SetByUser: sbu}
		} else {
			p = cli.BoolArg{Name: name, Desc: desc, EnvVar: env, Value: def, HideValue: d.Hide, SetByUser: sbu}
		}
		var ptr *bool
		if d.Ptr || d.DestShare != "" {
			ptr = boolDest(d, sharedDefs)
			cmd.BoolPtr(ptr, p)
		} else {
			ptr = cmd.Bool(p)
		}
		rec.read = func() []string { return []string{strconv.FormatBool(*ptr)} }

	case "string":
		def := single(d, "")
		if conv {
			var ptr *string
			switch {
			case isOpt && (d.Ptr || d.DestShare != ""):
				ptr = destOf[string](d, sharedDefs)
				cmd.StringOptPtr(ptr, name, def, desc)
			case isOpt:
				ptr = cmd.StringOpt(name, def, desc)
			case d.Ptr || d.DestShare != "":
				ptr = destOf[string](d, sharedDefs)
				cmd.StringArgPtr(ptr, name, def, desc)
			default:
				ptr = cmd.StringArg(name, def, desc)
			}
			rec.read = func() []string { return []string{*ptr} }
			break
		}
		var p cli.StringParam
		if isOpt {
			p = cli.StringOpt{Name: name, Desc: desc, EnvVar: env, Value: def, HideValue: d.Hide, SetByUser: sbu}
		} else {
			p = cli.StringArg{Name: name, Desc: desc, EnvVar: env, Value: def, HideValue: d.Hide, SetByUser: sbu}
		}
		var ptr *string
		if d.Ptr || d.DestShare != "" {
			ptr = destOf[string](d, sharedDefs)
			cmd.StringPtr(ptr, p)
		} else {
			ptr = cmd.String(p)
		}
		rec.read = func() []string { return []string{*ptr} }

	case "int":
		def := parseIntS(d, single(d, "0"))
		if conv {
			var ptr *int
			switch {
			case isOpt && (d.Ptr || d.DestShare != ""):
				ptr = destOf[int](d, sharedDefs)
				cmd.IntOptPtr(ptr, name, def, desc)
			case isOpt:
				ptr = cmd.IntOpt(name, def, desc)
			case d.Ptr || d.DestShare != "":
				ptr = destOf[int](d, sharedDefs)
				cmd.IntArgPtr(ptr, name, def, desc)
			default:
				ptr = cmd.IntArg(name, def, desc)
			}
			rec.read = func() []string { return []string{strconv.Itoa(*ptr)} }
			break
		}
		var p cli.IntParam
		if isOpt {
			p = cli.IntOpt{Name: name, Desc: desc, EnvVar: env, Value: def, HideValue: d.Hide, SetByUser: sbu}
		} else {
			p = cli.IntArg{Name: name, Desc: desc, EnvVar: env, Value: def, HideValue: d.Hide, SetByUser: sbu}
		}
		var ptr *int
		if d.Ptr || d.DestShare != "" {
			ptr = destOf[int](d, sharedDefs)
			cmd.IntPtr(ptr, p)
		} else {
			ptr = cmd.Int(p)
		}
		rec.read = func() []string { return []string{strconv.Itoa(*ptr)} }

	case "float":
		def := parseFloatS(d, single(d, "0"))
		if conv {
			var ptr *float64
			switch {
			case isOpt && d.Ptr:
				ptr = stale(new(float64))
				cmd.Float64OptPtr(ptr, name, def, desc)
			case isOpt:
				ptr = cmd.Float64Opt(name, def, desc)
			case d.Ptr:
				ptr = stale(new(float64))
				cmd.Float64ArgPtr(ptr, name, def, desc)
			default:
				ptr = cmd.Float64Arg(name, def, desc)
			}
			rec.read = func() []string { return []string{fmtFloat(*ptr)} }
			break
		}
		var p cli.Float64Param
		if isOpt {
			p = cli.Float64Opt{Name: name, Desc: desc, EnvVar: env, Value: def, HideValue: d.Hide, SetByUser: sbu}
		} else {
			p = cli.Float64Arg{Name: name, Desc: desc, EnvVar: env, Value: def, HideValue: d.Hide, SetByUser: sbu}
		}
		var ptr *float64
		if d.Ptr {
			var v float64
			ptr = stale(&v)
			cmd.Float64Ptr(&v, p)
		} else {
			ptr = cmd.Float64(p)
		}
		rec.read = func() []string { return []string{fmtFloat(*ptr)} }

	case "strings":
		var def []string
		if len(d.Def) > 0 {
			def = strs(d.Def)
		}
		def = shareDef(d.DefShare, def, sharedDefs)
		if conv {
			var ptr *[]string
			switch {
			case isOpt && (d.Ptr || d.DestShare != ""):
				ptr = destOf[[]string](d, sharedDefs)
				cmd.StringsOptPtr(ptr, name, def, desc)
			case isOpt:
				ptr = cmd.StringsOpt(name, def, desc)
			case d.Ptr || d.DestShare != "":
				ptr = destOf[[]string](d, sharedDefs)
				cmd.StringsArgPtr(ptr, name, def, desc)
			default:
				ptr = cmd.StringsArg(name, def, desc)
			}
			rec.read = func() []string { return append([]string{}, (*ptr)...) }
			break
		}
		var p cli.StringsParam
		if isOpt {
			p = cli.StringsOpt{Name: name, Desc: desc, EnvVar: env, Value: def, HideValue: d.Hide, SetByUser: sbu}
		} else {
			p = cli.StringsArg{Name: name, Desc: desc, EnvVar: env, Value: def, HideValue: d.Hide, SetByUser: sbu}
		}
		var ptr *[]string
		if d.Ptr || d.DestShare != "" {
			ptr = destOf[[]string](d, sharedDefs)
			cmd.StringsPtr(ptr, p)
		} else {
			ptr = cmd.Strings(p)
		}
		rec.read = func() []string { return append([]string{}, (*ptr)...) }

	case "ints":
		var def []int
		for _, s := range d.Def {
			def = append(def, parseIntS(d, string(s)))
		}
		def = shareDef(d.DefShare, def, sharedDefs)
		if conv {
			var ptr *[]int
			switch {
			case isOpt && d.Ptr:
				ptr = stale(new([]int))
				cmd.IntsOptPtr(ptr, name, def, desc)
			case isOpt:
				ptr = cmd.IntsOpt(name, def, desc)
			case d.Ptr:
				ptr = stale(new([]int))
				cmd.IntsArgPtr(ptr, name, def, desc)
			default:
				ptr = cmd.IntsArg(name, def, desc)
			}
			rec.read = func() []string {
				res := []string{}
				for _, i := range *ptr {
					res = append(res, strconv.Itoa(i))
				}
				return res
			}
			break
		}
		var p cli.IntsParam
		if isOpt {
			p = cli.IntsOpt{Name: name, Desc: desc, EnvVar: env, Value: def, HideValue: d.Hide, SetByUser: sbu}
		} else {
			p = cli.IntsArg{Name: name, Desc: desc, EnvVar: env, Value: def, HideValue: d.Hide, SetByUser: sbu}
		}
		var ptr *[]int
		if d.Ptr {
			var v []int
			ptr = stale(&v)
			cmd.IntsPtr(&v, p)
		} else {
			ptr = cmd.Ints(p)
		}
		rec.read = func() []string {
			res := []string{}
			for _, i := range *ptr {
				res = append(res, strconv.Itoa(i))
			}
			return res
		}

	case "floats":
		var def []float64
		for _, s := range d.Def {
			def = append(def, parseFloatS(d, string(s)))
		}
		def = shareDef(d.DefShare, def, sharedDefs)
		if conv {
			var ptr *[]float64
			switch {
			case isOpt && d.Ptr:
				ptr = stale(new([]float64))
				cmd.Floats64OptPtr(ptr, name, def, desc)
			case isOpt:
				ptr = cmd.Floats64Opt(name, def, desc)
			case d.Ptr:
				ptr = stale(new([]float64))
				cmd.Floats64ArgPtr(ptr, name, def, desc)
			default:
				ptr = cmd.Floats64Arg(name, def, desc)
			}
			rec.read = func() []string {
				res := []string{}
				for _, f := range *ptr {
					res = append(res, fmtFloat(f))
				}
				return res
			}
			break
		}
		var p cli.Floats64Param
		if isOpt {
			p = cli.Floats64Opt{Name: name, Desc: desc, EnvVar: env, Value: def, HideValue: d.Hide, SetByUser: sbu}
		} else {
			p = cli.Floats64Arg{Name: name, Desc: desc, EnvVar: env, Value: def, HideValue: d.Hide, SetByUser: sbu}
		}
		var ptr *[]float64
		if d.Ptr {
			var v []float64
			ptr = stale(&v)
			cmd.Floats64Ptr(&v, p)
		} else {
			ptr = cmd.Floats64(p)
		}
		rec.read = func() []string {
			res := []string{}
			for _, f := range *ptr {
				res = append(res, fmtFloat(f))
			}
			return res
		}

	case "custom":
		val, c := newCustom(d.Custom)
		if d.DestShare != "" && sharedDefs != nil {
			// one flag.Value object handed to several declarations
			type customDest struct {
				val flag.Value
				c   *core
			}
			if prev, ok := sharedDefs["dest:"+d.DestShare].(customDest); ok {
				val, c = prev.val, prev.c
			} else {
				sharedDefs["dest:"+d.DestShare] = customDest{val, c}
			}
		}
		rec.cv = c
		rec.read = c.logCopy
		if conv {
			if isOpt {
				cmd.VarOpt(name, val, desc)
			} else {
				cmd.VarArg(name, val, desc)
			}
			break
		}
		if isOpt {
			cmd.Var(cli.VarOpt{Name: name, Desc: desc, EnvVar: env, Value: val, HideValue: d.Hide, SetByUser: sbu})
		} else {
			cmd.Var(cli.VarArg{Name: name, Desc: desc, EnvVar: env, Value: val, HideValue: d.Hide, SetByUser: sbu})
		}

	default:
		bad("unknown decl kind %q", d.Kind)
	}
	return rec
}

/******************************************************************************/
/* Environment                                                                */
/******************************************************************************/

func declEnvNames(decls []declSpec, into map[string]bool) {
	for i := range decls {
		for _, n := range strings.Fields(string(decls[i].Env)) {
			into[n] = true
		}
	}
}

func cmdEnvNames(c *cmdSpec, into map[string]bool) {
	if c == nil {
		return
	}
	declEnvNames(c.Decls, into)
	for _, s := range c.Subs {
		cmdEnvNames(s, into)
	}
}

// applyEnv unsets every variable in names, then sets those of env (keys are JSON strings: Latin-1 decoded here).
// The returned function unsets what was set. Errors of Setenv (invalid names/values) are ignored.
func applyEnv(names map[string]bool, env map[string]B) (cleanup func()) {
	for n := range names {
		os.Unsetenv(n)
	}
	var set []string
	for k, v := range env {
		kk := l1dec(k)
		if err := os.Setenv(kk, string(v)); err == nil {
			set = append(set, kk)
		}
	}
	return func() {
		for _, k := range set {
			os.Unsetenv(k)
		}
	}
}

/******************************************************************************/
/* Panic / error classification                                               */
/******************************************************************************/

// UserPanic is the type of the values hooks panic with
type UserPanic int

// UserPanicNC: a panic value of a type that is not comparable (a slice), as a program that panics with a list of problems
type UserPanicNC []int

// exitSentinel is what the exit stub panics with
type exitSentinel struct{ code int }

func exitStub(code int) { panic(exitSentinel{code}) }

func classifyErr(err error) string {
	if err.Error() == "incorrect usage" {
		return "usage"
	}
	var ne *strconv.NumError
	if errors.As(err, &ne) || err.Error() == errCustomFail.Error() {
		return "conv"
	}
	return "other"
}

// classifyPanic returns the outcome ("exit", "panic" or "crash"), the exit code (outcome exit) and the panic text.
func classifyPanic(v interface{}) (outcome string, code int, text string) {
	switch x := v.(type) {
	case exitSentinel:
		return "exit", x.code, ""
	case UserPanic:
		return "panic", 0, fmt.Sprintf("user:%d", int(x))
	case UserPanicNC:
		if len(x) == 1 {
			return "panic", 0, fmt.Sprintf("user:%d", x[0])
		}
	case harnessError:
		return "panic", 0, "harness:" + x.msg
	case *runtime.PanicNilError:
		return "panic", 0, "nil"
	}
	if msg, pos, ok := cli.VerifParseError(v); ok {
		return "panic", 0, fmt.Sprintf("parse:%d:%s", pos, msg)
	}
	switch x := v.(type) {
	case runtime.Error:
		// the run-time error of an "rt" hook is the user's panic value, not a crash of the library
		var idx int
		if n, _ := fmt.Sscanf(x.Error(), "runtime error: index out of range [%d] with length 0", &idx); n == 1 && idx >= 1000 {
			return "panic", 0, fmt.Sprintf("user:%d", idx-1000)
		}
		return "crash", 0, "rt:" + x.Error()
	case error:
		return "panic", 0, "err:" + classifyErr(x)
	case string:
		return "panic", 0, "str:" + x
	}
	return "panic", 0, fmt.Sprintf("other:%T", v)
}

/******************************************************************************/
/* op run                                                                     */
/******************************************************************************/

type runCtx struct {
	trace  []B
	vars   []*varRec
	values map[string][]B
	sbu    map[string]bool
	shared map[string]interface{} // default slices shared between declarations of this case
	// afterRootDecls: called once, right after the root's own declarations (Version declared last)
	afterRootDecls func()
	app            *cli.Cli
	// hasBefore: the case has an earlier life; the root's sub-commands marked late are declared after it
	hasBefore bool
}

func firstName(name string) string {
	fs := strings.Fields(name)
	if len(fs) == 0 {
		return name
	}
	return fs[0]
}

func (r *runCtx) snapshot() {
	r.values = map[string][]B{}
	r.sbu = map[string]bool{}
	for _, v := range r.vars {
		k := l1enc(v.key)
		r.values[k] = bs(v.read())
		if v.sbu != nil {
			r.sbu[k] = *v.sbu
		}
	}
}

func (r *runCtx) hook(h *hookSpec, tag, path string, isAction bool, cmd *cli.Cmd) func() {
	if h == nil {
		return nil
	}
	return func() {
		r.trace = append(r.trace, B(tag+":"+path))
		if isAction {
			r.snapshot()
		}
		switch h.K {
		case "panic":
			if h.Rt {
				var empty []int
				_ = empty[1000+h.V]
			}
			if h.Nc {
				panic(UserPanicNC{h.V})
			}
			panic(UserPanic(h.V))
		case "exit":
			cli.Exit(h.N)
		case "help":
			// the public printing methods, called by the callback on its own command
			cmd.PrintHelp()
		case "longhelp":
			cmd.PrintLongHelp()
		case "version":
			r.app.PrintVersion()
		}
	}
}

// configure performs, on cmd, everything that follows the policy/version step
func (r *runCtx) configure(cmd *cli.Cmd, c *cmdSpec, path string) {
	for i := range c.Decls {
		if c.Decls[i].Late && r.hasBefore && cmd == r.app.Cmd {
			continue // declared after the first run (declareLate)
		}
		rec := declare(cmd, &c.Decls[i], path, r.shared)
		r.vars = append(r.vars, rec)
	}
	if r.afterRootDecls != nil {
		f := r.afterRootDecls
		r.afterRootDecls = nil
		f()
	}
	cmd.Spec = string(c.Spec)
	cmd.LongDesc = string(c.LongDesc)
	cmd.Hidden = c.Hidden
	if f := r.hook(c.Before, "B", path, false, cmd); f != nil {
		cmd.Before = f
	}
	if f := r.hook(c.Action, "A", path, true, cmd); f != nil {
		cmd.Action = f
	}
	if f := r.hook(c.After, "F", path, false, cmd); f != nil {
		cmd.After = f
	}
	r.declareSubs(cmd, c, path, false)
}

// declareSubs declares the sub-commands of c on cmd: those marked late when late is set, the others otherwise
func (r *runCtx) declareSubs(cmd *cli.Cmd, c *cmdSpec, path string, late bool) {
	for _, sub := range c.Subs {
		sub := sub
		if sub == nil || (sub.Late && r.hasBefore) != late {
			continue
		}
		subPath := path + "/" + firstName(string(sub.Name))
		if sub.Policy == nil && len(sub.Decls) == 0 && len(sub.Subs) == 0 && sub.Before == nil && sub.After == nil &&
			len(sub.Spec) == 0 && len(sub.LongDesc) == 0 && !sub.Hidden &&
			(sub.Action == nil || (sub.Action.K != "help" && sub.Action.K != "longhelp")) {
			// a leaf that only has an Action: declared through the ActionCommand helper, as the README does
			if f := r.hook(sub.Action, "A", subPath, true, nil); f != nil {
				cmd.Command(string(sub.Name), string(sub.Desc), cli.ActionCommand(f))
				continue
			}
			// a leaf with nothing at all: no initialiser
			if sub.Action == nil {
				cmd.Command(string(sub.Name), string(sub.Desc), nil)
				continue
			}
		}
		cmd.Command(string(sub.Name), string(sub.Desc), func(sc *cli.Cmd) {
			if sub.Policy != nil && !sub.PolicyLate {
				sc.ErrorHandling = flag.ErrorHandling(*sub.Policy)
			}
			r.configure(sc, sub, subPath)
			if sub.Policy != nil && sub.PolicyLate {
				sc.ErrorHandling = flag.ErrorHandling(*sub.Policy)
			}
		})
	}
}

// runCase builds and runs one application. stderr may be nil (op conc), in which case no stderr is reported.
// The IO hooks and the environment must already be in place.
func runCase(req *request, stderr *bytes.Buffer) *runOut {
	r := &runCtx{trace: []B{}, shared: map[string]interface{}{}}
	out := &runOut{ID: req.ID}
	var returned error

	func() {
		defer func() {
			if v := recover(); v != nil {
				outcome, code, text := classifyPanic(v)
				out.Outcome = outcome
				if outcome == "exit" {
					out.Code = &code
				} else {
					t := B(text)
					out.Panic = &t
				}
			}
		}()
		if req.Root == nil {
			bad("run: missing root")
		}
		root := req.Root
		rootName := string(root.Name)
		app := cli.App(rootName, string(root.Desc))
		r.app = app
		if root.Policy != nil && !root.PolicyLate {
			app.ErrorHandling = flag.ErrorHandling(*root.Policy)
		}
		if req.Version != nil {
			declareVersion := func() {
				app.Version(string(req.Version.Name), string(req.Version.Text))
				if req.Version.Again != nil {
					app.Version(string(req.Version.Again.Name), string(req.Version.Again.Text))
				}
			}
			if req.Version.Last {
				r.afterRootDecls = declareVersion
			} else {
				declareVersion()
			}
		}
		r.hasBefore = req.Before != nil
		r.configure(app.Cmd, root, rootName)
		if root.Policy != nil && root.PolicyLate {
			app.ErrorHandling = flag.ErrorHandling(*root.Policy)
		}

		argv0 := rootName
		if req.Argv0 != nil {
			argv0 = string(*req.Argv0)
		}
		argv := append([]string{argv0}, strs(req.Argv)...)
		if req.Before != nil {
			final := app.Spec
			app.Spec = string(req.Before.Spec)
			func() {
				defer func() { _ = recover() }()
				_ = app.Run(append([]string{argv0}, strs(req.Before.Argv)...))
			}()
			app.Spec = final
			for i := range root.Decls {
				if root.Decls[i].Late {
					r.vars = append(r.vars, declare(app.Cmd, &root.Decls[i], rootName, r.shared))
				}
			}
			r.declareSubs(app.Cmd, root, rootName, true)
			r.trace = []B{}
			r.values = nil
			r.sbu = nil
			if stderr != nil {
				stderr.Reset()
			}
		}
		// repeat > 1: the same application is run again on the same command line; what is
		// reported is the last run
		for i := 1; i < req.Repeat; i++ {
			func() {
				defer func() { _ = recover() }()
				_ = app.Run(argv)
			}()
			r.trace = []B{}
			r.values = nil
			r.sbu = nil
			if stderr != nil {
				stderr.Reset()
			}
		}
		err := app.Run(argv)
		out.Outcome = "ret"
		if err != nil {
			e := classifyErr(err)
			out.Err = &e
			returned = err
		}
	}()

	out.Trace = r.trace
	out.Values = r.values
	out.Sbu = r.sbu
	if out.Values == nil {
		out.Values = map[string][]B{}
	}
	if out.Sbu == nil {
		out.Sbu = map[string]bool{}
	}
	out.Logs = map[string][]B{}
	for _, v := range r.vars {
		if v.cv != nil {
			out.Logs[l1enc(v.key)] = bs(v.cv.logCopy())
		}
	}
	if stderr != nil {
		lines := procStderr(stderr.String())
		out.Stderr = &lines
		if returned != nil {
			ok := strings.HasPrefix(stderr.String(), "Error: "+returned.Error()+"\n")
			out.ErrLine = &ok
		}
	}
	return out
}

func procStderr(s string) []B {
	res := []B{}
	for _, line := range strings.Split(s, "\n") {
		var sb strings.Builder
		inWs := false
		for i := 0; i < len(line); i++ {
			c := line[i]
			if c == ' ' || c == '\t' {
				if !inWs {
					sb.WriteByte(' ')
				}
				inWs = true
				continue
			}
			inWs = false
			sb.WriteByte(c)
		}
		t := strings.Trim(sb.String(), " ")
		if t == "" {
			continue
		}
		if strings.HasPrefix(t, "Error: ") && t != "Error: incorrect usage" {
			t = "Error: <conv>"
		}
		res = append(res, B(t))
	}
	return res
}

func opRun(req *request) interface{} {
	names := map[string]bool{}
	cmdEnvNames(req.Root, names)
	cleanup := applyEnv(names, req.Env)
	defer cleanup()

	var buf, outBuf bytes.Buffer
	restore := cli.VerifSetIOSplit(&buf, &outBuf, exitStub)
	defer restore()

	res := runCase(req, &buf)
	if outBuf.Len() > 0 {
		// the library is not supposed to write anything to its output stream
		lines := procStderr(outBuf.String())
		res.Stdout = &lines
	}
	return res
}

/******************************************************************************/
/* op conc                                                                    */
/******************************************************************************/

type lockedDiscard struct{ mu sync.Mutex }

func (w *lockedDiscard) Write(p []byte) (int, error) {
	w.mu.Lock()
	defer w.mu.Unlock()
	return len(p), nil
}

func opConc(req *request) interface{} {
	names := map[string]bool{}
	env := map[string]B{}
	for _, c := range req.Cases {
		if c == nil {
			continue
		}
		cmdEnvNames(c.Root, names)
		for k, v := range c.Env {
			env[k] = v
		}
	}
	for k, v := range req.Env {
		env[k] = v
	}
	cleanup := applyEnv(names, env)
	defer cleanup()

	restore := cli.VerifSetIO(&lockedDiscard{}, exitStub)
	defer restore()

	rounds := 1
	if req.Rounds != nil {
		rounds = *req.Rounds
	}
	obs := [][]*runOut{}
	for round := 0; round < rounds; round++ {
		outs := make([]*runOut, len(req.Cases))
		start := make(chan struct{})
		var wg sync.WaitGroup
		for i, c := range req.Cases {
			i, c := i, c
			if c == nil {
				c = &request{}
			}
			wg.Add(1)
			go func() {
				defer wg.Done()
				<-start
				outs[i] = runCase(c, nil)
			}()
		}
		close(start)
		wg.Wait()
		obs = append(obs, outs)
	}
	return &concOut{ID: req.ID, Obs: obs}
}

/******************************************************************************/
/* ops lex, compile, match, oracle                                            */
/******************************************************************************/

func opLex(req *request) interface{} {
	toks, msg, pos, ok := cli.VerifTokenize(string(req.Spec))
	if !ok {
		return &failOut{ID: req.ID, Ok: false, Msg: B(msg), Pos: pos}
	}
	res := &lexOkOut{ID: req.ID, Ok: true, Tokens: []tokenOut{}}
	for _, t := range toks {
		res.Tokens = append(res.Tokens, tokenOut{T: B(t.Typ), V: B(t.Val), P: t.Pos})
	}
	return res
}

// declApp creates an app and executes decls on its root command (env must be in place)
func declApp(decls []declSpec) *cli.Cli {
	app := cli.App("app", "")
	for i := range decls {
		declare(app.Cmd, &decls[i], "app", map[string]interface{}{})
	}
	return app
}

func opCompile(req *request) interface{} {
	names := map[string]bool{}
	declEnvNames(req.Decls, names)
	cleanup := applyEnv(names, req.Env)
	defer cleanup()

	app := declApp(req.Decls)
	app.Spec = string(req.Spec)
	graph, spec, err := app.Cmd.VerifCompile()
	if err != nil {
		if msg, pos, ok := cli.VerifParseError(err); ok {
			return &failOut{ID: req.ID, Ok: false, Msg: B(msg), Pos: pos}
		}
		return &failOut{ID: req.ID, Ok: false, Msg: B(err.Error()), Pos: -1}
	}
	res := &compileOkOut{ID: req.ID, Ok: true, Spec: B(spec), Graph: []stateOut{}}
	for _, s := range graph {
		so := stateOut{Term: s.Term, Tr: [][]interface{}{}}
		for _, e := range s.Tr {
			so.Tr = append(so.Tr, []interface{}{B(e.Label), e.Target})
		}
		res.Graph = append(res.Graph, so)
	}
	return res
}

func opMatch(req *request) interface{} {
	names := map[string]bool{}
	declEnvNames(req.Decls, names)
	cleanup := applyEnv(names, req.Env)
	defer cleanup()

	if req.M == nil {
		bad("match: missing m")
	}
	app := declApp(req.Decls)
	var idxs []int
	switch req.M.K {
	case "opt", "arg":
		idxs = []int{req.M.I}
	case "grp":
		idxs = req.M.Is
	case "dd":
	default:
		bad("match: unknown matcher kind %q", req.M.K)
	}
	ok, rem, ro, binds := app.Cmd.VerifMatch(req.M.K, idxs, strs(req.Args), req.Ro)
	res := &matchOut{ID: req.ID, Ok: ok, Rem: bs(rem), Ro: ro, Binds: [][2]B{}}
	for _, b := range binds {
		res.Binds = append(res.Binds, [2]B{B(b[0]), B(b[1])})
	}
	return res
}

func opOracle(req *request) interface{} {
	res := &oracleOut{ID: req.ID, Int: []*string{}, Float: []*string{}, Bool: []*string{}}
	for _, b := range req.Strs {
		s := string(b)
		var pi, pf, pb *string
		if i, err := strconv.ParseInt(s, 10, 64); err == nil {
			t := strconv.Itoa(int(i))
			pi = &t
		}
		if f, err := strconv.ParseFloat(s, 64); err == nil {
			t := fmtFloat(f)
			pf = &t
		}
		if v, err := strconv.ParseBool(s); err == nil {
			t := strconv.FormatBool(v)
			pb = &t
		}
		res.Int = append(res.Int, pi)
		res.Float = append(res.Float, pf)
		res.Bool = append(res.Bool, pb)
	}
	return res
}

/******************************************************************************/
/* Main loop, watchdog                                                        */
/******************************************************************************/

// handle runs one request; every panic of the case is recovered here (op run / conc recover theirs per app)
func handle(req *request) (out interface{}) {
	defer func() {
		if v := recover(); v != nil {
			if he, ok := v.(harnessError); ok {
				out = &errOut{ID: req.ID, Error: he.msg}
				return
			}
			_, _, text := classifyPanic(v)
			if _, isExit := v.(exitSentinel); isExit {
				text = fmt.Sprintf("exit:%d", v.(exitSentinel).code)
			}
			out = &panicOut{ID: req.ID, Panic: B(text)}
		}
	}()
	switch req.Op {
	case "run":
		return opRun(req)
	case "lex":
		return opLex(req)
	case "compile":
		return opCompile(req)
	case "match":
		return opMatch(req)
	case "oracle":
		return opOracle(req)
	case "conc":
		return opConc(req)
	}
	return &errOut{ID: req.ID, Error: fmt.Sprintf("unknown op %q", req.Op)}
}

type output struct {
	mu  sync.Mutex
	w   *bufio.Writer
	gen int // generation of the running case; bumped when its line has been printed
}

func (o *output) emitLocked(v interface{}) {
	data, err := marshalNoHTML(v)
	if err != nil {
		data, _ = json.Marshal(map[string]string{"error": "marshal: " + err.Error()})
	}
	o.w.Write(data)
	o.w.WriteByte('\n')
	o.w.Flush()
}

func nullID(id json.RawMessage) json.RawMessage {
	if len(bytes.TrimSpace(id)) == 0 {
		return json.RawMessage("null")
	}
	return id
}

func main() {
	debug.SetMaxStack(64 << 20)

	timeout := 4000 * time.Millisecond
	if s := os.Getenv("VERIF_CASE_TIMEOUT_MS"); s != "" {
		if ms, err := strconv.Atoi(s); err == nil && ms > 0 {
			timeout = time.Duration(ms) * time.Millisecond
		}
	}

	memLimit := uint64(1536) << 20
	if s := os.Getenv("VERIF_CASE_MEM_MB"); s != "" {
		if mb, err := strconv.Atoi(s); err == nil && mb > 0 {
			memLimit = uint64(mb) << 20
		}
	}

	in := bufio.NewReaderSize(os.Stdin, 1<<16)
	out := &output{w: bufio.NewWriterSize(os.Stdout, 1<<16)}

	for {
		line, rerr := in.ReadBytes('\n')
		if len(bytes.TrimSpace(line)) > 0 {
			req := &request{}
			if err := json.Unmarshal(line, req); err != nil {
				// try to salvage the id
				var idOnly struct {
					ID json.RawMessage `json:"id"`
				}
				_ = json.Unmarshal(line, &idOnly)
				out.mu.Lock()
				out.emitLocked(&errOut{ID: nullID(idOnly.ID), Error: "bad input: " + err.Error()})
				out.mu.Unlock()
			} else {
				req.ID = nullID(req.ID)

				out.mu.Lock()
				myGen := out.gen
				out.mu.Unlock()
				watchdog := time.AfterFunc(timeout, func() {
					out.mu.Lock()
					if out.gen != myGen {
						out.mu.Unlock()
						return
					}
					out.emitLocked(&timeoutOut{ID: req.ID, Outcome: "timeout"})
					os.Exit(3)
				})

				// a second watchdog, on memory: a case whose live heap passes the limit is reported as "memory" and ends
				// the process like a timeout (a parse that needs gigabytes would otherwise take the sandbox down with it)
				memDone := make(chan struct{})
				go func() {
					tk := time.NewTicker(50 * time.Millisecond)
					defer tk.Stop()
					for {
						select {
						case <-memDone:
							return
						case <-tk.C:
							var ms runtime.MemStats
							runtime.ReadMemStats(&ms)
							if ms.HeapAlloc > memLimit {
								out.mu.Lock()
								if out.gen != myGen {
									out.mu.Unlock()
									return
								}
								out.emitLocked(&timeoutOut{ID: req.ID, Outcome: "memory"})
								os.Exit(3)
							}
						}
					}
				}()

				res := handle(req)
				close(memDone)

				out.mu.Lock()
				out.gen++
				watchdog.Stop()
				out.emitLocked(res)
				out.mu.Unlock()
			}
		}
		if rerr != nil {
			if rerr != io.EOF {
				fmt.Fprintln(os.Stderr, "harness: read error:", rerr)
				os.Exit(1)
			}
			return
		}
	}
}
