// Command plain uses the library exactly as a program does: no verif hooks, the real os.Stderr, os.Stdout and os.Exit.
// The checks run it as a child process and look at its exit status and at what it wrote to which file descriptor
// (C07, C14, C05): the hooks of the main harness replace the three package-level indirections of cli.go, so what they
// are initialised with is only seen here.
//
//	plain <policy 0|1|2> <action: ret|exit7|none> <argv...>      spec: "[-f] X"; version flag "V version" = "v1.2"
package main

import (
	"flag"
	"fmt"
	"os"
	"strconv"

	cli "github.com/jawher/mow.cli"
)

func main() {
	if len(os.Args) < 3 {
		fmt.Fprintln(os.Stderr, "usage: plain <policy> <action> <argv...>")
		os.Exit(64)
	}
	pol, _ := strconv.Atoi(os.Args[1])
	app := cli.App("plain", "a plain program")
	app.ErrorHandling = flag.ErrorHandling(pol)
	app.Version("V version", "v1.2")
	app.BoolOpt("f", false, "a flag")
	x := app.StringArg("X", "", "an argument")
	app.Spec = "[-f] X"
	switch os.Args[2] {
	case "ret":
		app.Action = func() { fmt.Fprintln(os.Stdout, "ran "+*x) }
	case "exit7":
		app.Action = func() { cli.Exit(7) }
	}
	app.After = func() { fmt.Fprintln(os.Stdout, "after") }
	err := app.Run(append([]string{"plain"}, os.Args[3:]...))
	if err != nil {
		fmt.Fprintln(os.Stdout, "returned: "+err.Error())
		os.Exit(40)
	}
	fmt.Fprintln(os.Stdout, "returned: nil")
}
