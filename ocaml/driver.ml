(* Driver for the extracted model: one case per input line "<id>\t<tree>", one output line
   "<id>\t<json>". Trees: "(" items ")" and atoms "x" followed by hex bytes. *)

let ascii_of_char (c : char) : Model.ascii =
  let n = Char.code c in
  let b i = (n lsr i) land 1 = 1 in
  Model.Ascii (b 0, b 1, b 2, b 3, b 4, b 5, b 6, b 7)

let char_of_ascii (a : Model.ascii) : char =
  match a with
  | Model.Ascii (b0, b1, b2, b3, b4, b5, b6, b7) ->
    let v b i = if b then 1 lsl i else 0 in
    Char.chr (v b0 0 + v b1 1 + v b2 2 + v b3 3 + v b4 4 + v b5 5 + v b6 6 + v b7 7)

let hexval c =
  match c with
  | '0' .. '9' -> Char.code c - 48
  | 'a' .. 'f' -> Char.code c - 87
  | 'A' .. 'F' -> Char.code c - 55
  | _ -> failwith "bad hex"

(* parse a tree starting at position i of s; returns the tree and the next position *)
let rec parse (s : string) (i : int) : Model.sx * int =
  let n = String.length s in
  let rec skip i = if i < n && s.[i] = ' ' then skip (i + 1) else i in
  let i = skip i in
  if i >= n then failwith "unexpected end"
  else if s.[i] = '(' then begin
    let rec items i acc =
      let i = skip i in
      if i >= n then failwith "unclosed"
      else if s.[i] = ')' then (Model.SL (List.rev acc), i + 1)
      else let (x, j) = parse s i in items j (x :: acc)
    in
    items (i + 1) []
  end else if s.[i] = 'x' then begin
    let rec bytes i acc =
      if i + 1 < n && s.[i] <> ' ' && s.[i] <> ')' && s.[i] <> '(' then
        bytes (i + 2) (ascii_of_char (Char.chr (hexval s.[i] * 16 + hexval s.[i + 1])) :: acc)
      else (Model.SA (List.rev acc), i)
    in
    bytes (i + 1) []
  end else failwith ("bad char at " ^ string_of_int i)

let rec print (b : Buffer.t) (x : Model.sx) : unit =
  match x with
  | Model.SA s ->
    Buffer.add_char b '"';
    List.iter
      (fun a ->
        let c = char_of_ascii a in
        let n = Char.code c in
        if c = '"' then Buffer.add_string b "\\\""
        else if c = '\\' then Buffer.add_string b "\\\\"
        else if n < 32 || n >= 127 then Buffer.add_string b (Printf.sprintf "\\u%04x" n)
        else Buffer.add_char b c)
      s;
    Buffer.add_char b '"'
  | Model.SL l ->
    Buffer.add_char b '[';
    List.iteri (fun i y -> if i > 0 then Buffer.add_char b ','; print b y) l;
    Buffer.add_char b ']'

exception Timeout

let () =
  let limit = try int_of_string (Sys.getenv "VERIF_MODEL_TIMEOUT_S") with _ -> 10 in
  Sys.set_signal Sys.sigalrm (Sys.Signal_handle (fun _ -> raise Timeout));
  let b = Buffer.create 65536 in
  (try
     while true do
       let line = input_line stdin in
       if String.length line > 0 then begin
         let tab = String.index line '\t' in
         let id = String.sub line 0 tab in
         let body = String.sub line (tab + 1) (String.length line - tab - 1) in
         Buffer.clear b;
         Buffer.add_string b id;
         Buffer.add_char b '\t';
         (try
            let (x, _) = parse body 0 in
            ignore (Unix.alarm limit);
            let r = Model.e_dispatch x in
            ignore (Unix.alarm 0);
            print b r
          with
          | Timeout -> Buffer.add_string b "[\"model-timeout\"]"
          | Stack_overflow -> Buffer.add_string b "[\"stackoverflow\"]"
          | Failure m -> Buffer.add_string b ("[\"driver-error\",\"" ^ String.escaped m ^ "\"]"));
         Buffer.add_char b '\n';
         print_string (Buffer.contents b);
         flush stdout
       end
     done
   with End_of_file -> ())
